// Package c18 monitors C18: the client lifecycle (create / upgrade / toggle
// proposals and MsgUpdateClient) installs a usable client or changes nothing.
//
// mpt.go: a small EVM world-state builder (account trie + one contract storage
// trie, go-ethereum's trie package) and the honest eth_getProof-shaped proof of
// one packet-commitment slot. The BSC / ETH instances install the root of such
// a state as their consensus root so that a true proof exists for the
// installed height. (Condensed from the C08 generator.)
package c18

import (
	"encoding/json"
	"math/big"
	"math/rand"
	"strconv"

	"github.com/ethereum/go-ethereum/common"
	"github.com/ethereum/go-ethereum/common/hexutil"
	gethtypes "github.com/ethereum/go-ethereum/core/types"
	"github.com/ethereum/go-ethereum/crypto"
	"github.com/ethereum/go-ethereum/ethdb/memorydb"
	"github.com/ethereum/go-ethereum/rlp"
	"github.com/ethereum/go-ethereum/trie"
)

var (
	emptyRoot = common.HexToHash("56e81f171bcc55a6ff8345e692c0f86e5b48e01b996cadc001622fb5e363b421")
	emptyCode = crypto.Keccak256(nil)
)

type nodeRec struct{ nodes [][]byte }

func (r *nodeRec) Put(_ []byte, v []byte) error {
	r.nodes = append(r.nodes, common.CopyBytes(v))
	return nil
}
func (r *nodeRec) Delete([]byte) error { return nil }

func newTrie() *trie.Trie {
	t, err := trie.New(common.Hash{}, trie.NewDatabase(memorydb.New()))
	if err != nil {
		panic(err)
	}
	return t
}

func prove(t *trie.Trie, key []byte) [][]byte {
	rec := &nodeRec{}
	if err := t.Prove(key, 0, rec); err != nil {
		panic(err)
	}
	return rec.nodes
}

func hexNodes(ns [][]byte) []string {
	out := make([]string, 0, len(ns))
	for _, n := range ns {
		out = append(out, hexutil.Encode(n))
	}
	return out
}

type storageJSON struct {
	Key   string   `json:"key"`
	Value string   `json:"value"`
	Proof []string `json:"proof"`
}

type proofJSON struct {
	Address      string         `json:"address"`
	Balance      string         `json:"balance"`
	CodeHash     string         `json:"code_hash"`
	Nonce        string         `json:"nonce"`
	StorageHash  string         `json:"storage_hash"`
	AccountProof []string       `json:"account_proof"`
	StorageProof []*storageJSON `json:"storage_proof"`
}

// slotOf: the XIBC packet contract keeps mapping(bytes => bytes32) at slot
// index 208 keyed by the commitment path.
func slotOf(src, dst string, seq uint64) common.Hash {
	path := "commitments/" + src + "/" + dst + "/sequences/" + strconv.FormatUint(seq, 10)
	var idx [32]byte
	idx[31] = 208
	return crypto.Keccak256Hash([]byte(path), idx[:])
}

// evmFact is one true packet commitment inside a generated world state.
type evmFact struct {
	contract   common.Address
	root       common.Hash // world-state root
	src, dst   string
	seq        uint64
	commitment []byte // 32 bytes, first byte non-zero
	proof      []byte // honest eth_getProof JSON for the commitment slot
}

func rnd(rng *rand.Rand, n int) []byte {
	b := make([]byte, n)
	rng.Read(b)
	return b
}

// newEvmFact builds a world state with a contract account holding the packet
// commitment (src,dst,seq) plus junk slots and filler accounts.
func newEvmFact(rng *rand.Rand, src, dst string, seq uint64) *evmFact {
	f := &evmFact{src: src, dst: dst, seq: seq, commitment: rnd(rng, 32)}
	if f.commitment[0] == 0 {
		f.commitment[0] = 1
	}
	rng.Read(f.contract[:])
	if f.contract[0] == 0 {
		f.contract[0] = 0x11 // common.FromHex round trip keeps leading zero bytes, keep it simple anyway
	}
	// storage trie of the contract
	st := newTrie()
	put := func(slot common.Hash, v []byte) {
		enc, err := rlp.EncodeToBytes(v)
		if err != nil {
			panic(err)
		}
		st.Update(crypto.Keccak256(slot[:]), enc)
	}
	slot := slotOf(src, dst, seq)
	put(slot, f.commitment)
	for i, n := 0, 2+rng.Intn(12); i < n; i++ {
		var s common.Hash
		rng.Read(s[:])
		v := rnd(rng, 1+rng.Intn(32))
		if v[0] == 0 {
			v[0] = 7
		}
		put(s, v)
	}
	storRoot := st.Hash()
	// account trie
	at := newTrie()
	codeHash := crypto.Keccak256(rnd(rng, 40))
	nonce := uint64(1 + rng.Intn(5))
	balance := new(big.Int).SetUint64(uint64(rng.Int63()))
	acc, err := rlp.EncodeToBytes(&gethtypes.StateAccount{Nonce: nonce, Balance: balance, Root: storRoot, CodeHash: codeHash})
	if err != nil {
		panic(err)
	}
	at.Update(crypto.Keccak256(f.contract[:]), acc)
	for i, n := 0, 2+rng.Intn(10); i < n; i++ {
		var a common.Address
		rng.Read(a[:])
		enc, _ := rlp.EncodeToBytes(&gethtypes.StateAccount{Nonce: uint64(rng.Intn(100)), Balance: new(big.Int).SetUint64(uint64(rng.Int63())), Root: emptyRoot, CodeHash: emptyCode})
		at.Update(crypto.Keccak256(a[:]), enc)
	}
	f.root = at.Hash()
	p := &proofJSON{
		Address: hexutil.Encode(f.contract[:]), Balance: hexutil.EncodeBig(balance), CodeHash: hexutil.Encode(codeHash), Nonce: hexutil.EncodeUint64(nonce),
		StorageHash: hexutil.Encode(storRoot[:]), AccountProof: hexNodes(prove(at, crypto.Keccak256(f.contract[:]))),
		StorageProof: []*storageJSON{{Key: hexutil.Encode(slot[:]), Value: hexutil.EncodeBig(new(big.Int).SetBytes(f.commitment)), Proof: hexNodes(prove(st, crypto.Keccak256(slot[:])))}},
	}
	bz, err := json.Marshal(p)
	if err != nil {
		panic(err)
	}
	f.proof = bz
	return f
}
