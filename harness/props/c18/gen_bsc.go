package c18

// gen_bsc.go: harness-side Parlia chain (own keys, own seal hash and block
// hash, turn / recent-signer rules from the Parlia specification). Condensed
// from the C09 generator; nothing here calls the repository's verification code.

import (
	"bytes"
	"crypto/ecdsa"
	"math/big"
	"math/rand"
	"sort"

	"github.com/ethereum/go-ethereum/common"
	"github.com/ethereum/go-ethereum/crypto"
	"github.com/ethereum/go-ethereum/rlp"

	bsctypes "github.com/teleport-network/teleport/x/xibc/clients/light-clients/bsc/types"
	clienttypes "github.com/teleport-network/teleport/x/xibc/core/client/types"
)

const (
	vanityLen = 32
	sealLen   = 65
	addrLen   = 20
)

var emptyUncle = crypto.Keccak256Hash([]byte{0xc0})

type val struct {
	key  *ecdsa.PrivateKey
	addr common.Address
}

func newVal(rng *rand.Rand) *val {
	for {
		b := make([]byte, 32)
		rng.Read(b)
		k, err := crypto.ToECDSA(b)
		if err == nil {
			return &val{key: k, addr: crypto.PubkeyToAddress(k.PublicKey)}
		}
	}
}

func sortedAddrs(in []common.Address) []common.Address {
	out := append([]common.Address{}, in...)
	sort.Slice(out, func(i, j int) bool { return bytes.Compare(out[i][:], out[j][:]) < 0 })
	return out
}

func inTurn(set []common.Address, number uint64) common.Address {
	s := sortedAddrs(set)
	return s[number%uint64(len(s))]
}

func bloomArr(b []byte) (out [256]byte) {
	if len(b) > 256 {
		b = b[len(b)-256:]
	}
	copy(out[256-len(b):], b)
	return
}

func nonceArr(b []byte) (out [8]byte) {
	if len(b) > 8 {
		b = b[len(b)-8:]
	}
	copy(out[8-len(b):], b)
	return
}

func bscFields(h *bsctypes.Header, extra []byte) []interface{} {
	return []interface{}{
		common.BytesToHash(h.ParentHash), common.BytesToHash(h.UncleHash), common.BytesToAddress(h.Coinbase), common.BytesToHash(h.Root),
		common.BytesToHash(h.TxHash), common.BytesToHash(h.ReceiptHash), bloomArr(h.Bloom), new(big.Int).SetBytes(h.Difficulty),
		new(big.Int).SetUint64(h.Height.RevisionHeight), h.GasLimit, h.GasUsed, h.Time, extra, common.BytesToHash(h.MixDigest), nonceArr(h.Nonce),
	}
}

func bscBlockHash(h *bsctypes.Header) common.Hash {
	bz, err := rlp.EncodeToBytes(bscFields(h, h.Extra))
	if err != nil {
		panic(err)
	}
	return crypto.Keccak256Hash(bz)
}

func bscSeal(h *bsctypes.Header, chainID uint64, key *ecdsa.PrivateKey) {
	fields := append([]interface{}{new(big.Int).SetUint64(chainID)}, bscFields(h, h.Extra[:len(h.Extra)-sealLen])...)
	bz, err := rlp.EncodeToBytes(fields)
	if err != nil {
		panic(err)
	}
	sig, err := crypto.Sign(crypto.Keccak256(bz), key)
	if err != nil {
		panic(err)
	}
	copy(h.Extra[len(h.Extra)-sealLen:], sig)
}

func addrBytes(l []common.Address) [][]byte {
	out := make([][]byte, len(l))
	for i, a := range l {
		out[i] = append([]byte{}, a[:]...)
	}
	return out
}

// bscChain is one generated Parlia chain as the harness knows it.
type bscChain struct {
	chainID      uint64
	epoch        uint64
	pool         []*val
	byAddr       map[common.Address]*val
	cur          []common.Address // set in force for the next block
	pend         []common.Address // list carried by the last epoch header
	head         *bsctypes.Header
	recents      map[uint64]common.Address
	sealers      map[uint64]common.Address // who sealed which block (never pruned): the statement's "last floor(N/2) blocks"
	anchorSigner common.Address
}

func (c *bscChain) clone() *bscChain {
	d := *c
	d.cur = append([]common.Address{}, c.cur...)
	d.pend = append([]common.Address{}, c.pend...)
	d.recents = make(map[uint64]common.Address, len(c.recents))
	for k, v := range c.recents {
		d.recents[k] = v
	}
	d.sealers = make(map[uint64]common.Address, len(c.sealers))
	for k, v := range c.sealers {
		d.sealers[k] = v
	}
	return &d
}

func (c *bscChain) pickSet(rng *rand.Rand, n int) []common.Address {
	var out []common.Address
	for _, i := range rng.Perm(len(c.pool))[:n] {
		out = append(out, c.pool[i].addr)
	}
	return sortedAddrs(out)
}

func (c *bscChain) extra(rng *rand.Rand, list []common.Address) []byte {
	e := rnd(rng, vanityLen)
	for _, a := range list {
		e = append(e, a[:]...)
	}
	return append(e, make([]byte, sealLen)...)
}

func (c *bscChain) limit() uint64 { return uint64(len(c.cur)/2 + 1) }

// eligible: members of the set in force that Parlia's recent-signer table does not block for `number`.
func (c *bscChain) eligible(number uint64) []*val {
	var out []*val
	lim := c.limit()
	for _, a := range sortedAddrs(c.cur) {
		blocked := false
		for seen, s := range c.recents {
			if s == a && (number < lim || seen > number-lim) {
				blocked = true
			}
		}
		// the rule as the property states it, with the set in force now: where the set has just grown, Parlia's table
		// (pruned under the smaller window) has forgotten sealers the rule still excludes - headers sealed by them are
		// not "valid headers" for the purposes of C18 (C09 judges that corner)
		for k := uint64(1); k <= uint64(len(c.cur)/2) && k <= number; k++ {
			if s, ok := c.sealers[number-k]; ok && s == a {
				blocked = true
			}
		}
		if !blocked {
			out = append(out, c.byAddr[a])
		}
	}
	return out
}

func (c *bscChain) difficulty(number uint64, signer common.Address) []byte {
	if inTurn(c.cur, number) == signer {
		return []byte{2}
	}
	return []byte{1}
}

// newBscChain draws a chain and its first anchor (an epoch header whose state root is `root`).
// hint "low" / "high" fixes the height range of the anchor (otherwise drawn).
func newBscChain(rng *rand.Rand, now uint64, root common.Hash, hint string) *bscChain {
	c := &bscChain{byAddr: map[common.Address]*val{}, recents: map[uint64]common.Address{}}
	c.chainID = []uint64{56, 97, uint64(1 + rng.Intn(1<<20))}[rng.Intn(3)]
	c.epoch = uint64(3 + rng.Intn(6))
	if rng.Intn(8) == 0 {
		c.epoch = 200
	}
	for i := 0; i < 8; i++ {
		v := newVal(rng)
		c.pool = append(c.pool, v)
		c.byAddr[v.addr] = v
	}
	n := 1 + rng.Intn(5)
	c.cur = c.pickSet(rng, n)
	var number uint64
	pick := rng.Intn(3)
	if hint == "low" {
		pick = 0
	} else if hint == "high" {
		pick = 2
	}
	switch pick {
	case 0:
		number = c.epoch * uint64(1+rng.Intn(3))
	case 1:
		number = c.epoch * uint64(50+rng.Intn(200))
	default:
		number = c.epoch * uint64(100000+rng.Intn(100000))
	}
	if hint == "zero" {
		number = 0 // block 0 is an epoch block
	}
	c.anchor(rng, number, now-600, root, rnd(rng, 32), 30000000+uint64(rng.Intn(1<<20)))
	return c
}

// anchor builds a sealed epoch header at `number` under the set in force and
// resets what a client anchored there knows (recents = the anchor's sealer only).
func (c *bscChain) anchor(rng *rand.Rand, number, ts uint64, root common.Hash, parent []byte, gasLimit uint64) {
	// the announced list: same set, or another set of 1..5 members
	c.pend = append([]common.Address{}, c.cur...)
	if rng.Intn(2) == 0 {
		c.pend = c.pickSet(rng, 1+rng.Intn(5))
	}
	signer := c.byAddr[c.cur[rng.Intn(len(c.cur))]]
	h := &bsctypes.Header{
		ParentHash: parent, UncleHash: emptyUncle[:], Coinbase: signer.addr[:], Root: root[:], TxHash: rnd(rng, 32), ReceiptHash: rnd(rng, 32),
		Bloom: make([]byte, 256), Difficulty: c.difficulty(number, signer.addr), Height: clienttypes.NewHeight(0, number),
		GasLimit: gasLimit, GasUsed: gasLimit / 3, Time: ts, Extra: c.extra(rng, c.pend), MixDigest: make([]byte, 32), Nonce: make([]byte, 8),
	}
	bscSeal(h, c.chainID, signer.key)
	c.head = h
	c.recents = map[uint64]common.Address{number: signer.addr}
	c.sealers = map[uint64]common.Address{number: signer.addr}
	c.anchorSigner = signer.addr
}

// child builds the honest next header (in-turn sealer when eligible).
func (c *bscChain) child(rng *rand.Rand, root []byte) *bsctypes.Header {
	number := c.head.Height.RevisionHeight + 1
	el := c.eligible(number)
	if len(el) == 0 {
		return nil
	}
	signer := el[rng.Intn(len(el))]
	it := inTurn(c.cur, number)
	for _, v := range el {
		if v.addr == it && rng.Intn(4) != 0 {
			signer = v
		}
	}
	var list []common.Address
	if number%c.epoch == 0 {
		list = append([]common.Address{}, c.cur...)
		if rng.Intn(2) == 0 {
			list = c.pickSet(rng, 1+rng.Intn(5))
		}
	}
	ph := bscBlockHash(c.head)
	if root == nil {
		root = rnd(rng, 32)
	}
	h := &bsctypes.Header{
		ParentHash: ph[:], UncleHash: emptyUncle[:], Coinbase: signer.addr[:], Root: root, TxHash: rnd(rng, 32), ReceiptHash: rnd(rng, 32),
		Bloom: make([]byte, 256), Difficulty: c.difficulty(number, signer.addr), Height: clienttypes.NewHeight(0, number),
		GasLimit: c.head.GasLimit, GasUsed: c.head.GasLimit / 4, Time: c.head.Time + 3, Extra: c.extra(rng, list), MixDigest: make([]byte, 32), Nonce: make([]byte, 8),
	}
	bscSeal(h, c.chainID, signer.key)
	return h
}

// apply advances the harness' view over an accepted header (Parlia snapshot.apply).
func (c *bscChain) apply(h *bsctypes.Header) {
	number := h.Height.RevisionHeight
	signer := common.BytesToAddress(h.Coinbase)
	limit := c.limit()
	if number >= limit {
		delete(c.recents, number-limit)
	}
	c.recents[number] = signer
	if c.sealers == nil {
		c.sealers = map[uint64]common.Address{}
	}
	c.sealers[number] = signer
	delete(c.sealers, number-64)
	if number%c.epoch == 0 {
		body := h.Extra[vanityLen : len(h.Extra)-sealLen]
		c.pend = nil
		for i := 0; i+addrLen <= len(body); i += addrLen {
			c.pend = append(c.pend, common.BytesToAddress(body[i:i+addrLen]))
		}
	}
	if number%c.epoch == uint64(len(c.cur)/2) {
		newLimit := uint64(len(c.pend)/2 + 1)
		if newLimit < limit {
			for i := uint64(0); i < limit-newLimit; i++ {
				if number >= newLimit+i {
					delete(c.recents, number-newLimit-i)
				}
			}
		}
		c.cur = append([]common.Address{}, c.pend...)
	}
	c.head = h
}

// reanchor advances the chain (harness side only) to its next epoch block and
// makes that block the new anchor, carrying `root`.
func (c *bscChain) reanchor(rng *rand.Rand, root common.Hash) bool {
	for c.head.Height.RevisionHeight%c.epoch != c.epoch-1 {
		h := c.child(rng, nil)
		if h == nil {
			return false
		}
		c.apply(h)
	}
	ph := bscBlockHash(c.head)
	c.anchor(rng, c.head.Height.RevisionHeight+1, c.head.Time+3, root, ph[:], c.head.GasLimit)
	return true
}
