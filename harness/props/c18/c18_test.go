package c18

import (
	"fmt"
	"math/rand"
	"sort"
	"strings"
	"sync"
	"testing"
	"time"

	bsctypes "github.com/teleport-network/teleport/x/xibc/clients/light-clients/bsc/types"
	ethtypes "github.com/teleport-network/teleport/x/xibc/clients/light-clients/eth/types"
	clienttypes "github.com/teleport-network/teleport/x/xibc/core/client/types"
	"github.com/teleport-network/teleport/x/xibc/core/host"
	"github.com/teleport-network/teleport/x/xibc/exported"

	"verif/harness/core"
)

func timeDur(ns uint64) time.Duration { return time.Duration(ns) }

var (
	pairMu  sync.Mutex
	pairTab = map[string]map[string]int{}
)

func pairCount(r *core.Run, op, pair, res string) {
	pairMu.Lock()
	k := op + " " + pair
	if pairTab[k] == nil {
		pairTab[k] = map[string]int{}
	}
	pairTab[k][res]++
	pairMu.Unlock()
}

// step is one element of a case.
type step struct {
	kind    string // create | upgrade | toggle | updates | bad-updates | bad-names
	slot    int
	typ     string
	variant string // valid | later | flawed | foreign-cons:<type>
	n       int
	quiet   bool   // lifecycle step used as set-up: installed and compared with the proposal, but not exercised (no updates)
	hint    string // low | high: height range of a generated BSC / ETH anchor
}

type caseSpec struct {
	id    string
	slots int
	steps []step // nil: drawn from the case PRNG
}

func other(typ string, k int) string {
	var o []string
	for _, t := range allTypes {
		if t != typ {
			o = append(o, t)
		}
	}
	return o[k%len(o)]
}

// matrixCases: every ordered pair (A,B) of client types in a fixed set of variants.
func matrixCases() []caseSpec {
	var out []caseSpec
	for _, a := range allTypes {
		for _, b := range allTypes {
			op := "toggle"
			wrong := "upgrade"
			if a == b {
				op, wrong = "upgrade", "toggle"
			}
			id := func(v string) string { return fmt.Sprintf("pair/%s->%s/%s", a, b, v) }
			cr := step{kind: "create", slot: 0, typ: a, variant: "valid"}
			out = append(out,
				// the valid operation for the pair, then the judgement of the installed client
				caseSpec{id: id("valid"), slots: 1, steps: []step{cr, {kind: op, slot: 0, typ: b, variant: "valid"}}},
				// the operation that is not allowed for the pair: upgrade to another type / toggle to the same type
				caseSpec{id: id("wrong-operation"), slots: 1, steps: []step{cr, {kind: wrong, slot: 0, typ: b, variant: "valid"}, {kind: "updates", slot: 0, n: 1}}},
				// B's client state with a consensus state of each other type
				caseSpec{id: id("foreign-consensus-state"), slots: 3, steps: []step{
					cr, {kind: op, slot: 0, typ: b, variant: "foreign-cons:" + other(b, 0)},
					{kind: "create", slot: 1, typ: a, variant: "valid"}, {kind: op, slot: 1, typ: b, variant: "foreign-cons:" + other(b, 1)},
					{kind: "create", slot: 2, typ: a, variant: "valid"}, {kind: op, slot: 2, typ: b, variant: "foreign-cons:" + other(b, 2)},
				}},
				// names: create B under the name A uses; upgrade / toggle to B where nothing exists; create with foreign consensus state
				caseSpec{id: id("names"), slots: 3, steps: []step{
					cr, {kind: "create", slot: 0, typ: b, variant: "valid"}, {kind: "updates", slot: 0, n: 1},
					{kind: "upgrade", slot: 1, typ: b, variant: "valid"}, {kind: "toggle", slot: 1, typ: b, variant: "valid"},
					{kind: "bad-names", typ: b},
					{kind: "create", slot: 2, typ: b, variant: "foreign-cons:" + other(b, 0)},
				}},
				// the client has been updated before the operation (metadata of the old type / old height present)
				caseSpec{id: id("after-updates"), slots: 1, steps: []step{cr, {kind: "updates", slot: 0, n: 3}, {kind: op, slot: 0, typ: b, variant: "valid"}, {kind: "bad-updates", slot: 0}}},
				// there and back again: old-type leftovers must not disturb the new client
				caseSpec{id: id("round-trip"), slots: 1, steps: []step{cr, {kind: op, slot: 0, typ: b, variant: "valid"}, {kind: op, slot: 0, typ: a, variant: "valid"}, {kind: op, slot: 0, typ: b, variant: "later"}}},
				// contents the new type cannot be initialised from
				caseSpec{id: id("flawed"), slots: 2, steps: []step{cr, {kind: op, slot: 0, typ: b, variant: "flawed"}, {kind: "updates", slot: 0, n: 1}, {kind: "create", slot: 1, typ: b, variant: "flawed"}}},
			)
			// the operation right after creation (the old client has never been updated)
			out = append(out, caseSpec{id: id("fresh"), slots: 1, steps: []step{{kind: "create", slot: 0, typ: a, variant: "valid", quiet: true}, {kind: op, slot: 0, typ: b, variant: "valid"}}})
			if a == b {
				out = append(out, caseSpec{id: id("later-anchor"), slots: 1, steps: []step{cr, {kind: "updates", slot: 0, n: 2}, {kind: "upgrade", slot: 0, typ: b, variant: "later"}, {kind: "upgrade", slot: 0, typ: b, variant: "valid"}}})
				// the vote re-installs the contents the client started from after it has moved on (resolved to "valid" where the generator has no such notion)
				out = append(out, caseSpec{id: id("back-to-anchor"), slots: 1, steps: []step{cr, {kind: "updates", slot: 0, n: 3}, {kind: "upgrade", slot: 0, typ: b, variant: "back-to-anchor"}, {kind: "updates", slot: 0, n: 3}}})
			} else {
				// via a third type
				c := other(a, 0)
				if c == b {
					c = other(a, 1)
				}
				out = append(out, caseSpec{id: id("via-" + c), slots: 1, steps: []step{cr, {kind: "toggle", slot: 0, typ: c, variant: "valid"}, {kind: "upgrade", slot: 0, typ: c, variant: "later"}, {kind: "toggle", slot: 0, typ: b, variant: "valid"}}})
			}
		}
	}
	// what an earlier client type left behind under the name must not disturb the new client
	q := func(t, hint string) step {
		return step{kind: "create", slot: 0, typ: t, variant: "valid", quiet: true, hint: hint}
	}
	out = append(out,
		// the counterparty restarts in its next revision at a low height; headers of the previous revision keep arriving
		caseSpec{id: "revision/tendermint-restarts-low-in-the-next-revision", slots: 1, steps: []step{q(tTM, ""), {kind: "updates", slot: 0, n: 3}, {kind: "upgrade", slot: 0, typ: tTM, variant: "next-revision"}, {kind: "updates", slot: 0, n: 2}}},
		caseSpec{id: "revision/tendermint-restarts-low-right-after-creation", slots: 1, steps: []step{q(tTM, ""), {kind: "upgrade", slot: 0, typ: tTM, variant: "next-revision"}, {kind: "updates", slot: 0, n: 1}, {kind: "upgrade", slot: 0, typ: tTM, variant: "later"}}},
		// clients anchored at the first block of their chain (height 0-0), through every lifecycle operation
		caseSpec{id: "anchor/eth-at-block-0", slots: 1, steps: []step{{kind: "create", slot: 0, typ: tETH, variant: "valid", hint: "zero"}, {kind: "updates", slot: 0, n: 2}, {kind: "upgrade", slot: 0, typ: tETH, variant: "valid", hint: "zero"}, {kind: "updates", slot: 0, n: 1}}},
		caseSpec{id: "anchor/bsc-at-block-0", slots: 1, steps: []step{{kind: "create", slot: 0, typ: tBSC, variant: "valid", hint: "zero"}, {kind: "updates", slot: 0, n: 2}, {kind: "upgrade", slot: 0, typ: tBSC, variant: "valid", hint: "zero"}}},
		caseSpec{id: "anchor/toggle-to-block-0", slots: 1, steps: []step{q(tTSS, ""), {kind: "toggle", slot: 0, typ: tETH, variant: "valid", hint: "zero"}, {kind: "toggle", slot: 0, typ: tBSC, variant: "valid", hint: "zero"}, {kind: "updates", slot: 0, n: 1}}},
		caseSpec{id: "leftover/eth-heights-below-bsc", slots: 1, steps: []step{q(tETH, "low"), {kind: "toggle", slot: 0, typ: tBSC, variant: "valid", hint: "high"}}},
		caseSpec{id: "leftover/bsc-heights-below-eth", slots: 1, steps: []step{q(tBSC, "low"), {kind: "toggle", slot: 0, typ: tETH, variant: "valid", hint: "high"}, {kind: "upgrade", slot: 0, typ: tETH, variant: "valid", hint: "high"}}},
		caseSpec{id: "leftover/tss-then-bsc", slots: 1, steps: []step{q(tETH, ""), {kind: "toggle", slot: 0, typ: tTSS, variant: "valid"}, {kind: "toggle", slot: 0, typ: tBSC, variant: "valid"}}},
		caseSpec{id: "leftover/tss-upgraded-then-eth", slots: 1, steps: []step{q(tTSS, ""), {kind: "upgrade", slot: 0, typ: tTSS, variant: "valid"}, {kind: "toggle", slot: 0, typ: tETH, variant: "valid"}, {kind: "upgrade", slot: 0, typ: tETH, variant: "valid"}}},
		caseSpec{id: "leftover/tss-upgraded-then-bsc-then-tendermint", slots: 1, steps: []step{q(tTSS, ""), {kind: "upgrade", slot: 0, typ: tTSS, variant: "valid"}, {kind: "toggle", slot: 0, typ: tBSC, variant: "valid", quiet: true}, {kind: "toggle", slot: 0, typ: tTM, variant: "valid"}}},
	)
	return out
}

func TestC18(t *testing.T) {
	r := core.NewRun(t, "C18")
	r.Rule = "Part 1: all 16 ordered pairs (A,B) of {tendermint,bsc,eth,tss} x 9 fixed variants (valid upgrade/toggle after the old client was exercised; right after creation; the operation not allowed for the pair; " +
		"B with a consensus state of each other type; names in use / missing / malformed; after updates; round trip; uninitialisable contents; later anchor or via a third type) + 5 fixed leftover-state cases. " +
		"Part 2: random sequences of 6-12 steps over 2-3 chain names (create/upgrade/toggle with valid, later-anchor, foreign-consensus-state and flawed contents of a random type; valid and invalid MsgUpdateClient; malformed names). " +
		"Proposals are executed like governance does (ValidateBasic, handler on a cache context, write on nil error); updates are real transactions from the authorised account. Contents come from per-type generators: " +
		"a real partner chain (Tendermint, real ICS-23 proofs), own Parlia chains (BSC), own EIP-1559 header chains in Rinkeby mode (ETH), TSS accounts; BSC/ETH consensus roots are roots of generated EVM world states " +
		"so that a true storage proof exists at the installed height. A case is one executed lifecycle operation or update; distinct = (operation, old->new type, variant, last four types of the name, updates since install); " +
		"non-trivial = the proposal handler / message server was reached."
	r.Assume("a valid proposal being refused is not judged (the statement constrains successes and failures, it does not promise that a valid proposal succeeds); such refusals are counted as observation/*")
	r.Assume("a TSS consensus state carries no data and no height: its storage is not judged")
	r.Assume("contents are not expired at proposal time (an expired consensus state cannot give an active client)")
	defer r.Finish()

	cases := matrixCases()
	nSeq := r.N(120, 3000)
	for i := 0; i < nSeq; i++ {
		cases = append(cases, caseSpec{id: fmt.Sprintf("seq/%d", i)})
	}
	workers := r.N(8, 14)
	if r.Replaying() {
		workers = 1
	}
	r.MinNontrivial(r.N(200, 900))

	jobs := make(chan caseSpec, len(cases))
	for _, c := range cases {
		jobs <- c
	}
	close(jobs)
	var wg sync.WaitGroup
	for w := 0; w < workers; w++ {
		wg.Add(1)
		go func() {
			defer wg.Done()
			var e *env
			for cs := range jobs {
				if !r.Want(cs.id) {
					continue
				}
				if e == nil {
					e = newEnv(r)
				}
				runCase(e, cs)
			}
		}()
	}
	wg.Wait()
	pairMu.Lock()
	tab := map[string]string{}
	for k, v := range pairTab {
		var parts []string
		for res, n := range v {
			parts = append(parts, fmt.Sprintf("%s=%d", res, n))
		}
		sort.Strings(parts)
		tab[k] = strings.Join(parts, " ")
	}
	pairMu.Unlock()
	r.Set("operations_by_type_pair", tab)
}

func runCase(e *env, cs caseSpec) {
	r := e.r
	c := &caseRun{e: e, id: cs.id, rng: r.Rng(cs.id)}
	defer func() {
		if rec := recover(); rec != nil {
			c.viol("panic/monitor-or-code-under-test", map[string]interface{}{"panic": fmt.Sprint(rec)})
		}
	}()
	steps := cs.steps
	nslots := cs.slots
	if steps == nil {
		nslots = 2 + c.rng.Intn(2)
		steps = randomSteps(c.rng, nslots)
	}
	tag := strings.NewReplacer("/", ".", ">", "").Replace(cs.id)
	var names []string
	for i := 0; i < nslots; i++ {
		name := fmt.Sprintf("%s-%d", tag, i)
		if len(name) > 60 {
			name = name[len(name)-60:]
		}
		c.slots = append(c.slots, &slot{name: name})
		names = append(names, name)
	}
	e.register(names)
	e.w.Roll(e.n)
	for i, st := range steps {
		c.step(st)
		if i == 0 && strings.HasSuffix(cs.id, "/valid") && strings.HasPrefix(cs.id, "pair/tendermint->") {
			r.Sample(map[string]interface{}{"case": cs.id, "first_steps": c.tail()})
		}
	}
	if cs.id == "seq/0" || cs.id == "pair/tss->bsc/valid" {
		r.Sample(map[string]interface{}{"case": cs.id, "steps": c.tail()})
	}
	e.w.Roll(e.n)
}

func randomSteps(rng *rand.Rand, nslots int) []step {
	var out []step
	n := 6 + rng.Intn(7)
	created := make([]bool, nslots)
	for i := 0; i < n; i++ {
		s := rng.Intn(nslots)
		typ := allTypes[rng.Intn(len(allTypes))]
		variant := "valid"
		switch x := rng.Intn(20); {
		case x < 2:
			variant = "foreign-cons:" + other(typ, rng.Intn(3))
		case x < 3:
			variant = "flawed"
		case x < 6:
			variant = "later"
		}
		switch x := rng.Intn(20); {
		case !created[s] && x < 16:
			out = append(out, step{kind: "create", slot: s, typ: typ, variant: variant})
			created[s] = true
		case x < 2:
			out = append(out, step{kind: "create", slot: s, typ: typ, variant: variant})
		case x < 8:
			out = append(out, step{kind: "toggle", slot: s, typ: typ, variant: variant})
		case x < 13:
			// typ "" = same type as the slot currently has (resolved at execution)
			if rng.Intn(4) != 0 {
				typ = ""
			}
			out = append(out, step{kind: "upgrade", slot: s, typ: typ, variant: variant})
		case x < 17:
			out = append(out, step{kind: "updates", slot: s, n: 1 + rng.Intn(3)})
		case x < 19:
			out = append(out, step{kind: "bad-updates", slot: s})
		default:
			out = append(out, step{kind: "bad-names", typ: typ})
		}
	}
	return out
}

func (c *caseRun) step(st step) {
	e, r := c.e, c.e.r
	switch st.kind {
	case "create", "upgrade", "toggle":
		sl := c.slots[st.slot]
		typ := st.typ
		if typ == "" {
			typ = tTM
			if sl.exists {
				typ = sl.typ
			}
		}
		var in *inst
		var err error
		variant := st.variant
		switch {
		case (variant == "back-to-anchor" || variant == "later" && sl.updates > 0 && c.rng.Intn(3) == 0) && sl.exists && sl.typ == typ && (typ == tBSC || typ == tETH) && sl.in != nil && !sl.unusable && sl.in.fact != nil:
			variant = "back-to-anchor"
			in = e.sameAnchorInst(c.rng, sl.in)
			r.Count(typ+"_upgrades_back_to_the_installed_anchor_after_updates", 1)
		case (variant == "back-to-anchor" || variant == "later" && c.rng.Intn(3) == 0) && sl.exists && sl.typ == typ && typ == tTM && sl.in != nil && !sl.unusable && sl.updates > 0 && sl.in.tmLatest > int64(sl.in.installed.RevisionHeight):
			variant = "tracked-height"
			in, err = e.trackedTM(c.rng, sl.in)
			r.Count("tendermint_upgrades_to_a_height_the_client_already_tracks", 1)
		case (variant == "next-revision" || variant == "later" && c.rng.Intn(4) == 0) && sl.exists && sl.typ == typ && typ == tTM && sl.in != nil && !sl.unusable && !sl.in.tmOldRev && sl.in.tmLatest > 4:
			variant = "next-revision"
			in, err = e.nextRevTM(c.rng, sl.in)
			r.Count("tendermint_upgrades_into_the_next_revision_at_a_lower_height", 1)
		case variant == "later" && sl.exists && sl.typ == typ && sl.in != nil && !sl.unusable:
			in, err = e.laterInst(c.rng, sl.in)
		case variant == "flawed":
			in, err = e.flawedInst(c.rng, typ)
			if err == nil && in.flaw == "" {
				variant = "valid"
			}
		default:
			if variant == "later" || variant == "back-to-anchor" || variant == "next-revision" {
				variant = "valid"
			}
			in, err = e.newInst(c.rng, typ, st.hint)
		}
		if err != nil {
			r.Inconclusive("%s: generator failed for %s: %v", c.id, typ, err)
			return
		}
		cons := in.cons
		if (in.typ == tBSC || in.typ == tETH) && in.flaw == "" && !strings.HasPrefix(variant, "foreign-cons") && c.rng.Intn(4) == 0 {
			// the consensus state's own Height field is neither validated nor read by these clients (the state is stored under
			// the header's height): whatever it says, the client must come out initialised for its HEADER
			hs := []clienttypes.Height{{}, clienttypes.NewHeight(0, in.installed.RevisionHeight+7), clienttypes.NewHeight(3, 1)}[c.rng.Intn(3)]
			switch t := cons.(type) {
			case *bsctypes.ConsensusState:
				cp := *t
				cp.Height = hs
				cons = &cp
			case *ethtypes.ConsensusState:
				cp := *t
				cp.Height = hs
				cons = &cp
			}
			r.Count("lifecycle/consensus-state-height-field-differs-from-header", 1)
		}
		if strings.HasPrefix(variant, "foreign-cons:") && strings.TrimPrefix(variant, "foreign-cons:") == typ {
			// the step's type was resolved to the slot's current type after the variant was drawn
			variant = "foreign-cons:" + other(typ, c.rng.Intn(3))
		}
		if strings.HasPrefix(variant, "foreign-cons:") {
			cons = e.foreignCons(c.rng, strings.TrimPrefix(variant, "foreign-cons:"))
		}
		c.lifecycle(st.kind, sl, in, cons, variant, st.quiet)
		e.w.Roll(e.n)
	case "updates":
		sl := c.slots[st.slot]
		if !sl.exists || sl.unusable {
			return
		}
		for i := 0; i < st.n; i++ {
			ok, log, built := c.update(sl)
			if !built {
				return
			}
			r.Eval(fmt.Sprintf("update|%s|hist=%s|upd=%d|%v", sl.typ, sl.hist(), minInt(sl.updates, 3), ok), true)
			if !ok {
				d := map[string]interface{}{"chain_name": sl.name, "type": sl.typ, "history": sl.hist(), "log": trunc(log, 400), "updates_accepted_since_install": sl.updates}
				stale := c.staleForeign(sl)
				switch {
				case sl.typ == tTSS:
					c.viol("update/tss/valid-header-never-accepted", d)
				case len(stale) > 0 && (strings.Contains(log, "invalid consensus type") || strings.Contains(log, "unmarshal")):
					d["leftover_consensus_state_types"] = stale
					c.viol(fmt.Sprintf("toggle/leftover-state/%s-update-refused-because-of-%s-consensus-state", sl.typ, stale[0]), d)
				default:
					c.viol(fmt.Sprintf("update/%s/valid-header-refused/%s", sl.typ, errSlug(log)), d)
				}
				sl.unusable = true
				return
			}
		}
		e.w.Roll(e.n)
	case "bad-updates":
		sl := c.slots[st.slot]
		if !sl.exists {
			return
		}
		c.badUpdates(sl)
	case "bad-names":
		c.badNames(st.typ)
	}
}

// badUpdates: updates that are not "a valid header from the authorised account". The statement only
// says that a failed one leaves the client untouched; acceptance is the subject of C06/C07/C09/C10.
func (c *caseRun) badUpdates(sl *slot) {
	e, r := c.e, c.e.r
	type att struct {
		what   string
		hdr    exported.Header
		signer *core.Account
	}
	var atts []att
	if !sl.unusable {
		if hdr, signer, _, err := e.nextHeader(c.rng, sl.in); err == nil {
			atts = append(atts, att{"valid-header-from-unregistered-account", hdr, e.outsider})
			if sl.typ == tTSS {
				atts = append(atts, att{"valid-tss-header-from-a-registered-relayer", hdr, e.relayer})
			}
			_ = signer
		}
	}
	// a header of another client type from the authorised account
	ot := other(sl.typ, c.rng.Intn(3))
	if in, err := e.newInst(c.rng, ot); err == nil {
		if hdr, _, _, err := e.nextHeader(c.rng, in); err == nil {
			signer := e.relayer
			if sl.typ == tTSS && sl.in != nil && sl.in.tss != nil {
				signer = sl.in.tss
			}
			atts = append(atts, att{"header-of-type-" + ot, hdr, signer})
		}
	}
	for _, a := range atts {
		msg, err := clienttypes.NewMsgUpdateClient(sl.name, a.hdr, a.signer.Acc)
		if err != nil {
			continue
		}
		before := c.dump(sl.name)
		tx, err := e.n.CosmosTx(a.signer, 50_000_000, msg)
		if err != nil {
			continue
		}
		res := e.n.Deliver(tx)
		r.Eval(fmt.Sprintf("bad-update|%s|%s|hist=%s|code0=%v", sl.typ, a.what, sl.hist(), res.Code == 0), true)
		if res.Code == 0 {
			r.Count("updates/invalid/accepted(not-judged-here)/"+a.what, 1)
			c.note("bad update %s on %s: ACCEPTED", a.what, sl.name)
			sl.unusable = true // the harness no longer knows the client's head
			continue
		}
		r.Count("updates/invalid/rejected", 1)
		c.note("bad update %s on %s: code %d", a.what, sl.name, res.Code)
		if d := core.Diff(host.StoreKey, before, c.dump(sl.name)); len(d) != 0 {
			c.viol("update/failed-but-client-store-changed", map[string]interface{}{"chain_name": sl.name, "type": sl.typ, "what": a.what, "log": res.Log, "diff": core.TrimDiff(d, 8)})
		}
	}
}

// badNames: create proposals with valid contents under names that are not valid chain names.
func (c *caseRun) badNames(typ string) {
	e, r := c.e, c.e.r
	names := []string{"", "ab", " ", "a/b", "abc/def", "ab c", "abc\n", "chaîne", "name!", "a*b", "abc,def", strings.Repeat("x", 65), strings.Repeat("y", 200), "abc\x00", "clients", "..", "a:b"}
	c.rng.Shuffle(len(names), func(i, j int) { names[i], names[j] = names[j], names[i] })
	for _, nm := range names[:6] {
		if validName(nm) {
			continue
		}
		in, err := e.newInst(c.rng, typ)
		if err != nil {
			return
		}
		sl := &slot{name: nm}
		r.Count("bad-names/attempted", 1)
		if c.lifecycle("create", sl, in, in.cons, "bad-name") {
			r.Count("bad-names/accepted", 1)
		}
	}
}
