package c10

// A synthetic proof-of-work chain with what the recorded main-net headers do not have: a base fee of ZERO (canonical empty
// encoding). Its seals were mined once, off line, at the minimum difficulty through the client's own light ethash
// evaluation (TestMineZeroFeeFixtures, C10_MINE=1) and are stored in testdata/zero_basefee.json; before they are used as
// ground truth every run re-checks them with the engine's VerifySeal on a go-ethereum header built field by field here.

import (
	"bytes"
	"encoding/json"
	"fmt"
	"math/big"
	"os"
	"path/filepath"
	"runtime"
	"sync"
	"sync/atomic"
	"testing"
	"time"

	sdk "github.com/cosmos/cosmos-sdk/types"
	"github.com/ethereum/go-ethereum/common"
	gethtypes "github.com/ethereum/go-ethereum/core/types"

	ethtypes "github.com/teleport-network/teleport/x/xibc/clients/light-clients/eth/types"
	clienttypes "github.com/teleport-network/teleport/x/xibc/core/client/types"

	"verif/harness/core"
)

const zeroFeeClient = "eth-c10-zerofee"

type zfSeal struct {
	Label string `json:"label"` // "london": sealed over the field list WITH the base fee; "legacy": without it
	Nonce uint64 `json:"nonce"`
	Mix   string `json:"mix_digest"`
}

type zfFixture struct {
	Seals []zfSeal `json:"seals"`
}

func zfAnchor() ethtypes.Header {
	return ethtypes.Header{
		ParentHash: bytes.Repeat([]byte{0x11}, 32), UncleHash: gethtypes.EmptyUncleHash.Bytes(), Coinbase: bytes.Repeat([]byte{0x22}, 20),
		Root: bytes.Repeat([]byte{0x33}, 32), TxHash: gethtypes.EmptyRootHash.Bytes(), ReceiptHash: gethtypes.EmptyRootHash.Bytes(), Bloom: make([]byte, 256),
		Difficulty: big.NewInt(131072).Bytes(), Height: clienttypes.NewHeight(0, 100), GasLimit: 30000000, GasUsed: 15000000, Time: 1700000000,
		Extra: []byte("verif-c10"), MixDigest: make([]byte, 32), Nonce: 0, BaseFee: nil,
	}
}

// zfChild is the child of the anchor (gas used = gas target, so the base fee stays zero; 131072 is the minimum difficulty).
func zfChild(anchor ethtypes.Header, label string) ethtypes.Header {
	return ethtypes.Header{
		ParentHash: anchor.Hash().Bytes(), UncleHash: gethtypes.EmptyUncleHash.Bytes(), Coinbase: bytes.Repeat([]byte{0x22}, 20),
		Root: bytes.Repeat([]byte{0x44}, 32), TxHash: gethtypes.EmptyRootHash.Bytes(), ReceiptHash: gethtypes.EmptyRootHash.Bytes(), Bloom: make([]byte, 256),
		Difficulty: big.NewInt(zfDifficulty(label)).Bytes(), Height: clienttypes.NewHeight(0, 101), GasLimit: 30000000, GasUsed: 15000000, Time: 1700000020,
		Extra: zfExtra(label), MixDigest: make([]byte, 32), Nonce: 0, BaseFee: nil,
	}
}

// zfExtra: the label itself, except for the "extra32" child, whose extra data has exactly the protocol maximum of 32 bytes.
func zfExtra(label string) []byte {
	if label == "extra32" {
		return append([]byte("extra32-"), bytes.Repeat([]byte{0x5a}, 24)...)
	}
	return []byte(label)
}

// zfDifficulty: the rule yields the minimum difficulty for the child; the "inflated" child claims more (and is genuinely
// sealed for what it claims).
func zfDifficulty(label string) int64 {
	if label == "inflated" {
		return 131072 + 4096
	}
	return 131072
}

// zfGeth builds go-ethereum's form of h without the client's conversion; london decides whether the base fee (zero) is
// part of the header (and with it of the seal hash).
func zfGeth(h ethtypes.Header, london bool) *gethtypes.Header {
	g := &gethtypes.Header{
		ParentHash: common.BytesToHash(h.ParentHash), UncleHash: common.BytesToHash(h.UncleHash), Coinbase: common.BytesToAddress(h.Coinbase),
		Root: common.BytesToHash(h.Root), TxHash: common.BytesToHash(h.TxHash), ReceiptHash: common.BytesToHash(h.ReceiptHash), Bloom: gethtypes.BytesToBloom(h.Bloom),
		Difficulty: new(big.Int).SetBytes(h.Difficulty), Number: new(big.Int).SetUint64(h.Height.RevisionHeight), GasLimit: h.GasLimit, GasUsed: h.GasUsed,
		Time: h.Time, Extra: h.Extra, MixDigest: common.BytesToHash(h.MixDigest), Nonce: gethtypes.EncodeNonce(h.Nonce),
	}
	if london {
		g.BaseFee = new(big.Int).SetBytes(h.BaseFee)
	}
	return g
}

func zfPath() string {
	return filepath.Join(core.VerifDir(), "harness", "props", "c10", "testdata", "zero_basefee.json")
}

// TestMineZeroFeeFixtures mines the two seals (C10_MINE=1 only; about a minute on 16 cores).
func TestMineZeroFeeFixtures(t *testing.T) {
	if os.Getenv("C10_MINE") == "" {
		t.Skip("set C10_MINE=1 to (re)generate testdata/zero_basefee.json")
	}
	anchor := zfAnchor()
	var fx, old zfFixture
	if bz, err := os.ReadFile(zfPath()); err == nil {
		_ = json.Unmarshal(bz, &old)
	}
labels:
	for _, label := range []string{"london", "legacy", "inflated", "extra32"} {
		if os.Getenv("C10_MINE") != "all" { // keep the seals that are already stored
			for _, s := range old.Seals {
				if s.Label == label {
					fx.Seals = append(fx.Seals, s)
					continue labels
				}
			}
		}
		child := zfChild(anchor, label)
		target := new(big.Int).Div(new(big.Int).Lsh(big.NewInt(1), 256), new(big.Int).SetBytes(child.Difficulty))
		var found atomic.Bool
		var mu sync.Mutex
		var seal zfSeal
		var wg sync.WaitGroup
		workers := runtime.NumCPU()
		for w := 0; w < workers; w++ {
			wg.Add(1)
			go func(w int) {
				defer wg.Done()
				eng := ethtypes.New(ethtypes.Config{}, nil, false)
				defer eng.Close()
				g := zfGeth(child, label != "legacy")
				for n := uint64(w); !found.Load(); n += uint64(workers) {
					g.Nonce = gethtypes.EncodeNonce(n)
					d, res := eng.VerifLightPoW(g)
					if new(big.Int).SetBytes(res).Cmp(target) <= 0 {
						mu.Lock()
						if !found.Load() {
							seal = zfSeal{Label: label, Nonce: n, Mix: common.Bytes2Hex(d)}
							found.Store(true)
						}
						mu.Unlock()
					}
				}
			}(w)
		}
		wg.Wait()
		fx.Seals = append(fx.Seals, seal)
		fmt.Printf("mined %s: nonce=%d mix=%s\n", label, seal.Nonce, seal.Mix)
	}
	bz, _ := json.MarshalIndent(fx, "", " ")
	if err := os.WriteFile(zfPath(), bz, 0o644); err != nil {
		t.Fatal(err)
	}
}

// zeroFeeCases: the London-sealed child of a stored zero-base-fee header must be accepted and become the head; the child
// whose seal only holds over the pre-London field list carries no proof of work for the header it is and must be refused.
func zeroFeeCases(e *env) {
	r := e.r
	const cid = "pow-zero-base-fee"
	if !r.Want(cid) {
		return
	}
	bz, err := os.ReadFile(zfPath())
	var fx zfFixture
	if err != nil || json.Unmarshal(bz, &fx) != nil || len(fx.Seals) != 4 {
		r.Inconclusive("%s: cannot read the mined seals: %v", cid, err)
		return
	}
	anchor := zfAnchor()
	eng := ethtypes.New(ethtypes.Config{}, nil, false)
	defer eng.Close()
	children := map[string]ethtypes.Header{}
	for _, s := range fx.Seals {
		c := zfChild(anchor, s.Label)
		c.Nonce, c.MixDigest = s.Nonce, common.Hex2Bytes(s.Mix)
		// ground truth of the fixture: the seal holds over exactly the field list its label names - and not over the other one
		own, other := eng.VerifySeal(zfGeth(c, s.Label != "legacy"), false), eng.VerifySeal(zfGeth(c, s.Label == "legacy"), false)
		if own != nil || other == nil {
			r.Inconclusive("%s: stored seal %q is not what it claims to be (own list: %v, other list: %v)", cid, s.Label, own, other)
			return
		}
		if zfGeth(c, true).Hash() != c.Hash() {
			r.Inconclusive("%s: client and go-ethereum disagree on the hash of the %s child", cid, s.Label)
			return
		}
		children[s.Label] = c
	}
	ck := e.n.App.XIBCKeeper.ClientKeeper
	ctx, _ := e.n.Ctx().CacheContext()
	ctx = ctx.WithBlockTime(time.Unix(int64(anchor.Time)+100, 0)).WithEventManager(sdk.NewEventManager())
	cs := &ethtypes.ClientState{Header: cloneHdr(anchor), ChainId: 1, ContractAddress: make([]byte, 20), TrustingPeriod: 1000000000, BlockDelay: 1}
	cons := &ethtypes.ConsensusState{Timestamp: anchor.Time, Height: anchor.Height, Root: append([]byte{}, anchor.Root...)}
	if err, _ := core.Catch(func() error { return ck.CreateClient(ctx, zeroFeeClient, cs, cons) }); err != nil {
		r.Inconclusive("%s: CreateClient failed: %v", cid, err)
		return
	}
	prefix := []byte("clients/" + zeroFeeClient + "/")
	try := func(ctx sdk.Context, label string, expectAccept bool) {
		h := children[label]
		pre := e.n.DumpPrefix(ctx, "xibc", prefix)
		uctx, write := ctx.CacheContext()
		sub := cloneHdr(h)
		err, panicked := core.Catch(func() error {
			return ck.UpdateClient(uctx.WithEventManager(sdk.NewEventManager()), zeroFeeClient, &sub)
		})
		r.Eval("pow-zero-base-fee|"+label, true)
		det := map[string]interface{}{"header": hdrDesc(&h), "seal": label, "result": fmt.Sprint(err)}
		switch {
		case panicked:
			r.Violation(cid, "pow/panic/update-client", det)
		case expectAccept && err != nil:
			r.Violation(cid, "pow/zero-base-fee/rejected-valid-child-of-stored-header/err="+errSlug(err), det)
		case !expectAccept && err == nil:
			r.Violation(cid, map[string]string{"legacy": "pow/zero-base-fee/accepted-header-whose-seal-does-not-cover-the-base-fee", "inflated": "pow/accepted-invalid/difficulty-above-the-rule/genuinely-sealed"}[label], det)
		}
		if err == nil && expectAccept {
			write()
			csI, _ := ck.GetClientState(ctx, zeroFeeClient)
			if c2, ok := csI.(*ethtypes.ClientState); !ok || c2.Header.Hash() != h.Hash() {
				r.Violation(cid, "pow/zero-base-fee/head/not-the-accepted-header", det)
			}
			return
		}
		if err != nil {
			if d := core.Diff("xibc", pre, e.n.DumpPrefix(ctx, "xibc", prefix)); len(d) > 0 {
				r.Violation(cid, "pow/rejected-update-changed-client-store", det)
			}
		}
	}
	// a London-sealed child whose extra data has exactly the maximum size (32 bytes) is a valid child; on a branch of its own
	// (the context is dropped), so that the cases below start from the anchor as before
	branch, _ := ctx.CacheContext()
	try(branch, "extra32", true)
	r.Count("pow/child_with_extra_data_of_exactly_32_bytes_submitted", 1)
	try(ctx, "legacy", false)
	r.Count("pow/zero_base_fee_legacy_sealed_child_submitted", 1)
	// a child that claims MORE difficulty than the rule yields from its parent, genuinely sealed for the claim
	try(ctx, "inflated", false)
	r.Count("pow/child_claiming_more_difficulty_than_the_rule_genuinely_sealed_submitted", 1)
	try(ctx, "london", true)
	r.Count("pow/zero_base_fee_london_sealed_child_submitted", 1)
}
