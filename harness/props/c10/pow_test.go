package c10

import (
	"bytes"
	"encoding/json"
	"fmt"
	"math/big"
	"os"
	"path/filepath"
	"sort"
	"time"

	sdk "github.com/cosmos/cosmos-sdk/types"

	ethtypes "github.com/teleport-network/teleport/x/xibc/clients/light-clients/eth/types"
	clienttypes "github.com/teleport-network/teleport/x/xibc/core/client/types"

	"verif/harness/core"
)

const powClient = "eth-c10-pow"

type powMut struct {
	name  string
	apply func(h *ethtypes.Header, parent *ethtypes.Header)
}

func flip(b []byte, i int) {
	if len(b) > 0 {
		b[i%len(b)] ^= 0x10
	}
}

// cheapMuts are rejected by a rule that is checked before the seal; sealMuts
// keep every other rule intact (or not) but in any case invalidate the
// proof-of-work, whose seal hash covers every field except nonce and mix digest.
var cheapMuts = []powMut{
	{"difficulty+1", func(h, _ *ethtypes.Header) {
		h.Difficulty = new(big.Int).Add(new(big.Int).SetBytes(h.Difficulty), big.NewInt(1)).Bytes()
	}},
	{"difficulty-1", func(h, _ *ethtypes.Header) {
		h.Difficulty = new(big.Int).Sub(new(big.Int).SetBytes(h.Difficulty), big.NewInt(1)).Bytes()
	}},
	{"difficulty=parent's", func(h, p *ethtypes.Header) { h.Difficulty = append([]byte{}, p.Difficulty...) }},
	{"difficulty/2", func(h, _ *ethtypes.Header) {
		h.Difficulty = new(big.Int).Rsh(new(big.Int).SetBytes(h.Difficulty), 1).Bytes()
	}},
	{"difficulty+2^64", func(h, _ *ethtypes.Header) {
		h.Difficulty = new(big.Int).Add(new(big.Int).SetBytes(h.Difficulty), new(big.Int).Lsh(big.NewInt(1), 64)).Bytes()
	}},
	{"base-fee+2^64", func(h, _ *ethtypes.Header) {
		h.BaseFee = new(big.Int).Add(new(big.Int).SetBytes(h.BaseFee), new(big.Int).Lsh(big.NewInt(1), 64)).Bytes()
	}},
	{"parent-hash/bitflip", func(h, _ *ethtypes.Header) { flip(h.ParentHash, 7) }},
	{"number+1", func(h, _ *ethtypes.Header) { h.Height.RevisionHeight++ }},
	{"base-fee+1", func(h, _ *ethtypes.Header) {
		h.BaseFee = new(big.Int).Add(new(big.Int).SetBytes(h.BaseFee), big.NewInt(1)).Bytes()
	}},
	{"gas-limit/beyond-bound", func(h, p *ethtypes.Header) { h.GasLimit = p.GasLimit + p.GasLimit/1024 }},
	{"time=parent", func(h, p *ethtypes.Header) { h.Time = p.Time }},
	// slow blocks: the difficulty rule takes its clamped branch for them (the recorded difficulty no longer fits, and the seal
	// covers the time anyway); judging them must not disturb the judgement of the headers that follow
	{"time=parent+900s", func(h, p *ethtypes.Header) { h.Time = p.Time + 900 }},
	{"time=parent+909s", func(h, p *ethtypes.Header) { h.Time = p.Time + 909 }},
	{"time=parent+1000s", func(h, p *ethtypes.Header) { h.Time = p.Time + 1000 }},
	{"time=parent+100000s", func(h, p *ethtypes.Header) { h.Time = p.Time + 100000 }},
	{"extra/33-bytes", func(h, _ *ethtypes.Header) {
		h.Extra = append(append([]byte{}, h.Extra...), make([]byte, 33-len(h.Extra))...)
	}},
}

var sealMuts = []powMut{
	{"nonce+1", func(h, _ *ethtypes.Header) { h.Nonce++ }},
	{"mix-digest/bitflip", func(h, _ *ethtypes.Header) { flip(h.MixDigest, 3) }},
	{"state-root/bitflip", func(h, _ *ethtypes.Header) { flip(h.Root, 11) }},
	{"tx-hash/bitflip", func(h, _ *ethtypes.Header) { flip(h.TxHash, 5) }},
	{"receipt-hash/bitflip", func(h, _ *ethtypes.Header) { flip(h.ReceiptHash, 9) }},
	{"coinbase/bitflip", func(h, _ *ethtypes.Header) { flip(h.Coinbase, 2) }},
	{"bloom/bitflip", func(h, _ *ethtypes.Header) { flip(h.Bloom, 100) }},
	{"extra/bitflip", func(h, _ *ethtypes.Header) { flip(h.Extra, 1) }},
	{"gas-used-1", func(h, _ *ethtypes.Header) { h.GasUsed-- }},
	{"uncle-hash/bitflip", func(h, _ *ethtypes.Header) { flip(h.UncleHash, 4) }},
	{"nonce^high-bit", func(h, _ *ethtypes.Header) { h.Nonce ^= 1 << 63 }},
	{"mix-digest/zero", func(h, _ *ethtypes.Header) { h.MixDigest = make([]byte, 32) }},
}

// powCases: recorded main-net headers with chain id 1 (difficulty and ethash
// seal are verified). Every ethash verification builds a fresh cache (~3 s),
// so the number of seal-reaching cases is bounded by tier.
func powCases(e *env) {
	r := e.r
	const cid = "pow"
	if !r.Want(cid) {
		return
	}
	rng := r.Rng(cid)
	bz, err := os.ReadFile(filepath.Join(core.RepoDir(), "x/xibc/clients/light-clients/eth/types/testdata/update_headers.json"))
	if err != nil {
		r.Inconclusive("pow: cannot read recorded headers: %v", err)
		return
	}
	var raw []*ethtypes.EthHeader
	if err := json.Unmarshal(bz, &raw); err != nil || len(raw) < 3 {
		r.Inconclusive("pow: cannot decode recorded headers: %v", err)
		return
	}
	hs := make([]ethtypes.Header, len(raw))
	for i, x := range raw {
		hs[i] = x.ToHeader()
		// ground truth of the generator: the recording is a chain by go-ethereum's own hashing
		if i > 0 && !bytes.Equal(hs[i].ParentHash, hs[i-1].ToVerifyHeader().Hash().Bytes()) {
			r.Inconclusive("pow: recorded headers %d and %d are not parent and child", i-1, i)
			return
		}
	}
	start, accepts, sealPerHeader := rng.Intn(len(hs)-2), 2, []int{2, 2}
	if r.Thorough() {
		start, accepts = 0, len(hs)-1
		sealPerHeader = nil
		left := 40 - accepts
		for i := 0; i < accepts; i++ {
			k := left / (accepts - i)
			sealPerHeader = append(sealPerHeader, k)
			left -= k
		}
	}
	ck := e.n.App.XIBCKeeper.ClientKeeper
	ctx, _ := e.n.Ctx().CacheContext()
	ctx = ctx.WithBlockTime(time.Unix(int64(hs[len(hs)-1].Time)+5000, 0)).WithEventManager(sdk.NewEventManager())
	g := hs[start]
	cs := &ethtypes.ClientState{Header: cloneHdr(g), ChainId: 1, ContractAddress: make([]byte, 20), TrustingPeriod: 1000000000, BlockDelay: 0}
	cons := &ethtypes.ConsensusState{Timestamp: g.Time, Height: g.Height, Root: append([]byte{}, g.Root...)}
	if err, _ := core.Catch(func() error { return ck.CreateClient(ctx, powClient, cs, cons) }); err != nil {
		r.Inconclusive("pow: CreateClient failed: %v", err)
		return
	}
	prefix := []byte("clients/" + powClient + "/")
	var hist []string

	try := func(h ethtypes.Header, label string, expectAccept bool) bool {
		pre := e.n.DumpPrefix(ctx, "xibc", prefix)
		uctx, write := ctx.CacheContext()
		uctx = uctx.WithEventManager(sdk.NewEventManager())
		sub := cloneHdr(h)
		err, panicked := core.Catch(func() error { return ck.UpdateClient(uctx, powClient, &sub) })
		r.Eval(fmt.Sprintf("pow|%d|%s", h.Height.RevisionHeight, label), true)
		res := "accepted"
		if err != nil {
			res = "rejected: " + err.Error()
		}
		hist = append(hist, fmt.Sprintf("%d %s -> %s", h.Height.RevisionHeight, label, res))
		det := map[string]interface{}{"header": hdrDesc(&h), "mutation": label, "result": res, "history": append([]string{}, hist...)}
		switch {
		case panicked:
			r.Violation(cid, "pow/panic/update-client", det)
		case expectAccept && err != nil:
			r.Violation(cid, "pow/rejected-recorded-main-net-header/err="+errSlug(err), det)
		case !expectAccept && err == nil:
			r.Violation(cid, "pow/accepted-invalid/"+label, det)
		}
		if expectAccept && err == nil {
			write()
			return true
		}
		if d := core.Diff("xibc", pre, e.n.DumpPrefix(ctx, "xibc", prefix)); len(d) > 0 {
			r.Violation(cid, "pow/rejected-update-changed-client-store", det)
		}
		return false
	}

	order := rng.Perm(len(sealMuts))
	next := 0
	for i := 0; i < accepts && start+1+i < len(hs); i++ {
		parent, h := hs[start+i], hs[start+1+i]
		for _, m := range cheapMuts {
			mh := cloneHdr(h)
			m.apply(&mh, &parent)
			try(mh, m.name, false)
			r.Count("pow/mutants_rejected_before_seal_expected", 1)
		}
		for k := 0; k < sealPerHeader[i]; k++ {
			var m powMut
			if i == 0 && k < 2 {
				m = sealMuts[k] // nonce and mix digest are always covered
			} else {
				m = sealMuts[order[next%len(order)]]
				next++
			}
			mh := cloneHdr(h)
			m.apply(&mh, &parent)
			try(mh, m.name, false)
			r.Count("pow/mutants_reaching_the_seal_check", 1)
		}
		if i == 0 {
			// near misses: seals whose mix digest is the genuine ethash digest for their nonce but whose result is above the
			// boundary 2^256/difficulty - of N drawn nonces the ones that come CLOSEST to the boundary are submitted
			nearMisses(r, rng, h, r.N(150, 600), r.N(2, 5), func(mh ethtypes.Header, label string) {
				try(mh, label, false)
				r.Count("pow/near_miss_seals_with_genuine_mix_digest", 1)
			})
		}
		if !try(h, "unmodified", true) {
			break // later headers have no stored parent any more
		}
		r.Count("pow/recorded_headers_accepted", 1)
		// head and consensus roots along the (linear) ancestry
		csI, _ := ck.GetClientState(ctx, powClient)
		if c2, ok := csI.(*ethtypes.ClientState); !ok || c2.Header.Hash() != h.Hash() {
			r.Violation(cid, "pow/head/not-the-accepted-header", map[string]interface{}{"accepted": h.Height.RevisionHeight, "history": hist})
		}
		for a := start; a <= start+1+i; a++ {
			cons, found := ck.GetClientConsensusState(ctx, powClient, clienttypes.NewHeight(0, hs[a].Height.RevisionHeight))
			if found && !bytes.Equal(cons.GetRoot(), hs[a].Root) {
				r.Violation(cid, "pow/consensus-root/wrong-on-head-ancestry", map[string]interface{}{"height": hs[a].Height.RevisionHeight, "history": hist})
			}
			if found {
				r.Count("checked/ancestry_consensus_roots", 1)
			}
		}
	}
	if len(hist) > 0 {
		r.Sample(map[string]interface{}{"case": cid, "start": hs[start].Height.RevisionHeight, "steps": hist[:minInt(len(hist), 30)]})
	}
}

// nearMisses draws n nonces for header h, evaluates ethash for each (light cache, through the verif hook of the client's own
// engine) and hands the k headers whose result misses the boundary by the least to submit, mix digest set to the genuine one.
func nearMisses(r *core.Run, rng interface{ Uint64() uint64 }, h ethtypes.Header, n, k int, submit func(ethtypes.Header, string)) {
	eng := ethtypes.New(ethtypes.Config{}, nil, false)
	defer eng.Close()
	target := new(big.Int).Div(new(big.Int).Lsh(big.NewInt(1), 256), new(big.Int).SetBytes(h.Difficulty))
	type cand struct {
		nonce  uint64
		digest []byte
		result *big.Int
	}
	var cs []cand
	for i := 0; i < n; i++ {
		mh := cloneHdr(h)
		mh.Nonce = rng.Uint64()
		if mh.Nonce == h.Nonce {
			continue
		}
		d, res := eng.VerifLightPoW(mh.ToVerifyHeader())
		v := new(big.Int).SetBytes(res)
		if v.Cmp(target) <= 0 {
			r.Count("pow/drawn_nonce_that_really_seals_the_header(!)", 1)
			continue
		}
		cs = append(cs, cand{mh.Nonce, append([]byte{}, d...), v})
	}
	sort.Slice(cs, func(i, j int) bool { return cs[i].result.Cmp(cs[j].result) < 0 })
	for i := 0; i < k && i < len(cs); i++ {
		mh := cloneHdr(h)
		mh.Nonce, mh.MixDigest = cs[i].nonce, cs[i].digest
		submit(mh, fmt.Sprintf("no-work/genuine-mix-digest/near-miss-%d-of-%d", i+1, n))
	}
	if len(cs) > 0 {
		r.Set("pow_near_miss_closest_result_over_boundary", new(big.Int).Div(cs[0].result, target).String()+"x the boundary")
	}
}
