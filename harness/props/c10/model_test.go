package c10

// Reference model and generators for C10. Nothing in this file calls the
// verification logic of the code under test: the acceptance predicate is
// written from the property statement and the Ethereum header rules
// (go-ethereum consensus/misc for the base fee and the gas-limit bound), and
// the only repository code used is the header *type* (to hash headers the way
// the client identifies them).

import (
	"crypto/sha256"
	"fmt"
	"math/big"
	"math/rand"
	"regexp"
	"sort"
	"strings"

	"github.com/ethereum/go-ethereum/common"
	"github.com/ethereum/go-ethereum/consensus/misc"
	gethtypes "github.com/ethereum/go-ethereum/core/types"
	"github.com/ethereum/go-ethereum/params"

	ethtypes "github.com/teleport-network/teleport/x/xibc/clients/light-clients/eth/types"
	clienttypes "github.com/teleport-network/teleport/x/xibc/core/client/types"
)

// ------------------------------------------------------------------ verdicts

type verdict int

const (
	mustAccept verdict = iota
	mustReject
	either
)

func (v verdict) String() string { return [...]string{"MUST_ACCEPT", "MUST_REJECT", "EITHER"}[v] }

// node is one header of a generated tree.
type node struct {
	id       string // path label: "g", "g.0", "g.0.1", ...
	hdr      ethtypes.Header
	hash     common.Hash
	parent   *node
	depth    int
	children []*node
	state    int  // index into the tree's sequence of world states (state-sequence root mode)
	tried    bool // submitted at least once in topological position
	orphaned bool // submitted once before its parent
}

func (n *node) height() uint64 { return n.hdr.Height.RevisionHeight }

func storeKey(hash common.Hash, height uint64) string {
	return fmt.Sprintf("%x/%d", hash[:], height)
}

// model is the reference state: every accepted header and the head.
type model struct {
	stored map[string]*node // (hash,height) -> node
	byHash map[common.Hash][]*node
	head   *node
}

func newModel(root *node) *model {
	m := &model{stored: map[string]*node{}, byHash: map[common.Hash][]*node{}}
	m.add(root)
	m.head = root
	return m
}

func (m *model) add(n *node) {
	k := storeKey(n.hash, n.height())
	if _, ok := m.stored[k]; !ok {
		m.stored[k] = n
		m.byHash[n.hash] = append(m.byHash[n.hash], n)
	}
}

func (m *model) get(hash common.Hash, height uint64) *node { return m.stored[storeKey(hash, height)] }

func (m *model) storedSorted() []*node {
	out := make([]*node, 0, len(m.stored))
	for _, n := range m.stored {
		out = append(out, n)
	}
	sort.Slice(out, func(i, j int) bool { return out[i].id < out[j].id })
	return out
}

func (m *model) digest() string {
	var ids []string
	for _, n := range m.storedSorted() {
		ids = append(ids, n.id)
	}
	return strings.Join(ids, ",") + "|head=" + m.head.id
}

// onAncestry reports whether a is head or one of head's ancestors.
func onAncestry(a, head *node) bool {
	for x := head; x != nil; x = x.parent {
		if x == a {
			return true
		}
	}
	return false
}

// ------------------------------------------------ independent header rules

var londonFromGenesis = &params.ChainConfig{ChainID: big.NewInt(4), LondonBlock: big.NewInt(0)}

// specBaseFee is EIP-1559 written from the specification text.
func specBaseFee(parentGasLimit, parentGasUsed uint64, parentBaseFee *big.Int) *big.Int {
	target := parentGasLimit / 2
	if parentGasUsed == target {
		return new(big.Int).Set(parentBaseFee)
	}
	t := new(big.Int).SetUint64(target)
	if parentGasUsed > target {
		d := new(big.Int).SetUint64(parentGasUsed - target)
		d.Mul(d, parentBaseFee)
		d.Div(d, t)
		d.Div(d, big.NewInt(8))
		if d.Sign() == 0 {
			d.SetInt64(1)
		}
		return d.Add(d, parentBaseFee)
	}
	d := new(big.Int).SetUint64(target - parentGasUsed)
	d.Mul(d, parentBaseFee)
	d.Div(d, t)
	d.Div(d, big.NewInt(8))
	out := new(big.Int).Sub(parentBaseFee, d)
	if out.Sign() < 0 {
		out.SetInt64(0)
	}
	return out
}

// refBaseFee is the base fee a child of p must carry. It is computed twice
// (from the EIP text and with go-ethereum's misc.CalcBaseFee for a chain whose
// London block is 0); ok=false means the two disagree (a harness defect).
func refBaseFee(p *ethtypes.Header) (fee *big.Int, ok bool) {
	pb := new(big.Int).SetBytes(p.BaseFee)
	a := specBaseFee(p.GasLimit, p.GasUsed, pb)
	b := misc.CalcBaseFee(londonFromGenesis, &gethtypes.Header{
		Number: new(big.Int).SetUint64(p.Height.RevisionHeight), GasLimit: p.GasLimit, GasUsed: p.GasUsed, BaseFee: pb,
	})
	return a, a.Cmp(b) == 0
}

var maxInt63 = uint64(0x7fffffffffffffff)

// gasLimitRule is go-ethereum's VerifyGaslimit for a London parent, with the
// 2^63-1 cap of the header sanity checks.
func gasLimitRule(parent, have uint64) string {
	if have > maxInt63 {
		return "gas-limit/above-2^63-1"
	}
	var diff uint64
	if parent > have {
		diff = parent - have
	} else {
		diff = have - parent
	}
	if diff >= parent/1024 {
		return "gas-limit/bound-1-1024"
	}
	if have < 5000 {
		return "gas-limit/below-5000"
	}
	return ""
}

// judgement of one submitted header against the model.
type judgement struct {
	v      verdict
	rule   string // first rule that fails (MUST_REJECT) or the reason for EITHER
	parent *node  // the stored parent, when there is one
	resub  bool
}

// judge decides what the property statement demands for header h submitted at
// block time bt (Rinkeby mode: no difficulty / proof-of-work rules).
func (m *model) judge(h *ethtypes.Header, bt uint64) judgement {
	height := h.Height.RevisionHeight
	ph := common.BytesToHash(h.ParentHash)
	if h.Height.RevisionNumber != 0 {
		// the revision number is an XIBC wrapper field, not part of the Ethereum header (it is not hashed): not pinned
		return judgement{v: either, rule: "revision-number-nonzero"}
	}
	if height == 0 {
		return judgement{v: mustReject, rule: "parent/not-stored"}
	}
	p := m.get(ph, height-1)
	if p == nil {
		if len(m.byHash[ph]) > 0 {
			return judgement{v: mustReject, rule: "parent/stored-at-other-height"}
		}
		return judgement{v: mustReject, rule: "parent/not-stored"}
	}
	j := judgement{parent: p}
	if h.Time <= p.hdr.Time {
		j.v, j.rule = mustReject, "time/not-after-parent"
		return j
	}
	if r := gasLimitRule(p.hdr.GasLimit, h.GasLimit); r != "" {
		j.v, j.rule = mustReject, r
		return j
	}
	if h.GasUsed > h.GasLimit {
		j.v, j.rule = mustReject, "gas-used/above-limit"
		return j
	}
	want, _ := refBaseFee(&p.hdr)
	if new(big.Int).SetBytes(h.BaseFee).Cmp(want) != 0 {
		j.v, j.rule = mustReject, "base-fee/wrong"
		return j
	}
	if h.Time > bt+3600 {
		j.v, j.rule = mustReject, "time/far-future"
		return j
	}
	if h.Time > bt+15 {
		j.v, j.rule = either, "time/near-future"
		return j
	}
	if new(big.Int).SetBytes(h.Difficulty).Sign() == 0 {
		j.v, j.rule = either, "difficulty-zero-on-rinkeby"
		return j
	}
	hh := h.Hash()
	if m.get(hh, height) != nil {
		j.v, j.rule, j.resub = either, "resubmission-of-stored-header", true
		return j
	}
	j.v = mustAccept
	return j
}

// relation describes where a valid header attaches relative to the head; it is
// the seed-independent part of the violation signatures.
func relation(m *model, j judgement, height uint64) string {
	if j.resub {
		return "resubmission"
	}
	if j.parent == m.head {
		return "child-of-head"
	}
	level := "not-above-head"
	if height > m.head.height() {
		level = "above-head"
	}
	anc := "parent-off-head-ancestry"
	if onAncestry(j.parent, m.head) {
		anc = "parent-on-head-ancestry"
	}
	return "child-of-non-head/" + level + "/" + anc
}

var (
	reHex = regexp.MustCompile(`0x[0-9a-fA-F]+|[0-9a-fA-F]{16,}`)
	reNum = regexp.MustCompile(`[0-9]+`)
	reSep = regexp.MustCompile(`[^a-zA-Z]+`)
)

// errSlug turns an error text into a short, seed-independent class.
func errSlug(err error) string {
	if err == nil {
		return "nil"
	}
	s := err.Error()
	if i := strings.Index(s, ": "); i >= 0 && strings.HasPrefix(s, "cannot update client") {
		s = s[i+2:]
	}
	// keep the innermost message only (sdkerrors appends ": <registered error>")
	if i := strings.Index(s, ": "); i > 0 {
		s = s[:i]
	}
	s = reHex.ReplaceAllString(s, " ")
	s = reNum.ReplaceAllString(s, " ")
	s = strings.Trim(reSep.ReplaceAllString(s, "-"), "-")
	if len(s) > 64 {
		s = s[:64]
	}
	return strings.ToLower(s)
}

// ------------------------------------------------------------- generators

type genOpts struct {
	emptyBlockProb float64 // child keeps the parent's state root (clique: no block reward)
	siblingRoot    float64 // child copies the state root of a sibling
	dtMax          int
	// stateSeq: the state root is a function of how many of the pending transactions have been
	// executed (clique: no block reward, so two branches that included the same transactions at
	// different heights share state roots at some heights and differ at others).
	stateSeq bool
	salt     []byte
}

func (o genOpts) seqRoot(state int) []byte {
	h := sha256.Sum256(append(append([]byte{}, o.salt...), byte(state), byte(state>>8)))
	return h[:]
}

func rbytes(rng *rand.Rand, n int) []byte {
	b := make([]byte, n)
	rng.Read(b)
	return b
}

func cloneHdr(h ethtypes.Header) ethtypes.Header {
	c := h
	cp := func(b []byte) []byte { return append([]byte{}, b...) }
	c.ParentHash, c.UncleHash, c.Coinbase, c.Root = cp(h.ParentHash), cp(h.UncleHash), cp(h.Coinbase), cp(h.Root)
	c.TxHash, c.ReceiptHash, c.Bloom, c.Difficulty = cp(h.TxHash), cp(h.ReceiptHash), cp(h.Bloom), cp(h.Difficulty)
	c.Extra, c.MixDigest, c.BaseFee = cp(h.Extra), cp(h.MixDigest), cp(h.BaseFee)
	return c
}

// genRoot draws the header the client is created from.
func genRoot(rng *rand.Rand) ethtypes.Header {
	heights := []uint64{1, 8, 9, 98, 99, 998, 9999, 1 + uint64(rng.Intn(100000)), 10000000 + uint64(rng.Intn(1000000))}
	limits := []uint64{5000 + uint64(rng.Intn(4)), 5000 + uint64(rng.Intn(4)), 8000000, 30000000, 12345678, 1 << 62, maxInt63 - uint64(rng.Intn(3))}
	fees := []*big.Int{big.NewInt(0), big.NewInt(1), big.NewInt(7), big.NewInt(8), big.NewInt(1000000000), big.NewInt(100000000000),
		new(big.Int).Lsh(big.NewInt(1), 64), new(big.Int).Add(new(big.Int).Lsh(big.NewInt(1), 200), big.NewInt(int64(rng.Intn(1000))))}
	gl := limits[rng.Intn(len(limits))]
	if rng.Intn(2) == 0 {
		gl = []uint64{8000000, 30000000}[rng.Intn(2)]
	}
	fee := fees[rng.Intn(len(fees))]
	if rng.Intn(2) == 0 {
		fee = big.NewInt(1000000000 + int64(rng.Intn(1000000000)))
	}
	h := ethtypes.Header{
		ParentHash: rbytes(rng, 32), UncleHash: gethtypes.EmptyUncleHash.Bytes(), Coinbase: rbytes(rng, 20), Root: rbytes(rng, 32),
		TxHash: rbytes(rng, 32), ReceiptHash: rbytes(rng, 32), Bloom: make([]byte, 256), Difficulty: []byte{2},
		Height: clienttypes.NewHeight(0, heights[rng.Intn(len(heights))]), GasLimit: gl, GasUsed: genGasUsed(rng, gl),
		Time: 1650000000 + uint64(rng.Intn(1000000)), Extra: rbytes(rng, rng.Intn(33)), MixDigest: make([]byte, 32), Nonce: 0,
		BaseFee: fee.Bytes(),
	}
	return h
}

func genGasUsed(rng *rand.Rand, limit uint64) uint64 {
	switch rng.Intn(6) {
	case 0:
		return 0
	case 1:
		return limit / 2
	case 2:
		return limit
	case 3:
		return limit/2 + 1
	}
	if limit >= maxInt63 {
		return uint64(rng.Int63())
	}
	return uint64(rng.Int63n(int64(limit) + 1))
}

// genGasLimit draws a gas limit allowed next to parent limit pl.
func genGasLimit(rng *rand.Rand, pl uint64) uint64 {
	bound := pl / 1024 // |diff| must be < bound
	if bound <= 1 {
		return pl
	}
	var d uint64
	switch rng.Intn(5) {
	case 0, 1:
		d = 0
	case 2, 3:
		d = bound - 1
	default:
		d = uint64(rng.Int63n(int64(bound)))
	}
	if rng.Intn(2) == 0 {
		if pl+d <= maxInt63 && pl+d >= pl {
			return pl + d
		}
		return pl
	}
	if pl-d >= 5000 {
		return pl - d
	}
	return pl
}

// genChild builds a header that satisfies every rule relative to p (second
// result: the child's world-state index).
func genChild(rng *rand.Rand, p *node, o genOpts) (ethtypes.Header, int) {
	gl := genGasLimit(rng, p.hdr.GasLimit)
	fee, _ := refBaseFee(&p.hdr)
	dt := uint64(1)
	if rng.Intn(5) != 0 {
		dt = 1 + uint64(rng.Intn(o.dtMax))
	}
	root := rbytes(rng, 32)
	x := rng.Float64()
	switch {
	case x < o.emptyBlockProb:
		root = append([]byte{}, p.hdr.Root...)
	case x < o.emptyBlockProb+o.siblingRoot && len(p.children) > 0:
		root = append([]byte{}, p.children[rng.Intn(len(p.children))].hdr.Root...)
	}
	state := p.state
	if o.stateSeq {
		state += []int{0, 0, 1, 1, 2}[rng.Intn(5)]
		root = o.seqRoot(state)
	}
	extra := rbytes(rng, rng.Intn(33))
	if rng.Intn(6) == 0 {
		extra = rbytes(rng, 97) // clique: 32 bytes vanity + 65 bytes seal
	}
	diff := []byte{byte(1 + rng.Intn(2))}
	if rng.Intn(8) == 0 {
		diff = append([]byte{byte(1 + rng.Intn(255))}, rbytes(rng, rng.Intn(8))...)
	}
	uncle := gethtypes.EmptyUncleHash.Bytes()
	if rng.Intn(10) == 0 {
		uncle = rbytes(rng, 32)
	}
	bloom := make([]byte, 256)
	if rng.Intn(3) == 0 {
		bloom = rbytes(rng, 256)
	}
	return ethtypes.Header{
		ParentHash: p.hash.Bytes(), UncleHash: uncle, Coinbase: rbytes(rng, 20), Root: root,
		TxHash: rbytes(rng, 32), ReceiptHash: rbytes(rng, 32), Bloom: bloom, Difficulty: diff,
		Height: clienttypes.NewHeight(0, p.height()+1), GasLimit: gl, GasUsed: genGasUsed(rng, gl),
		Time: p.hdr.Time + dt, Extra: extra, MixDigest: rbytes(rng, 32), Nonce: rng.Uint64() >> uint(rng.Intn(64)),
		BaseFee: fee.Bytes(),
	}, state
}

// tree is a generated header tree.
type tree struct {
	root  *node
	nodes []*node // root first, generation order
}

func (t *tree) addChild(rng *rand.Rand, p *node, o genOpts) *node {
	h, st := genChild(rng, p, o)
	n := &node{id: fmt.Sprintf("%s.%d", p.id, len(p.children)), hdr: h, parent: p, depth: p.depth + 1, state: st}
	n.hash = n.hdr.Hash()
	p.children = append(p.children, n)
	t.nodes = append(t.nodes, n)
	return n
}

// genTree: branching 1..3, depth <= 12, size nodes (plus the root).
func genTree(rng *rand.Rand, size int, o genOpts) *tree {
	g := &node{id: "g", hdr: genRoot(rng)}
	if o.stateSeq {
		g.hdr.Root = o.seqRoot(0)
	}
	g.hash = g.hdr.Hash()
	t := &tree{root: g, nodes: []*node{g}}
	extend := 0.35 + 0.5*rng.Float64() // how chain-like the tree is
	last := g
	for len(t.nodes) <= size {
		var p *node
		for try := 0; try < 20; try++ {
			if rng.Float64() < extend {
				p = last
			} else {
				p = t.nodes[rng.Intn(len(t.nodes))]
			}
			if p.depth < 12 && len(p.children) < 3 {
				break
			}
			p = nil
			last = t.nodes[rng.Intn(len(t.nodes))]
		}
		if p == nil {
			break
		}
		last = t.addChild(rng, p, o)
	}
	return t
}

// ------------------------------------------------------------- mutations

// mutation kinds applied to a header that is valid relative to a stored parent.
var mutKinds = []string{
	"parent-hash/random", "parent-hash/bitflip", "parent-hash/grandparent", "parent-hash/own-hash",
	"number/+1", "number/-1", "number/=0", "number/+big", "number/revision=1",
	"time/=parent", "time/<parent", "time/=0", "time/far-future",
	"gas-limit/up-to-bound", "gas-limit/down-to-bound", "gas-limit/up-far", "gas-limit/down-far", "gas-limit/above-2^63-1", "gas-limit/below-5000",
	"gas-used/=limit+1", "gas-used/=max",
	"base-fee/+1", "base-fee/-1", "base-fee/empty", "base-fee/parent's", "base-fee/random", "base-fee/+2^64", "base-fee/+2^128", "base-fee/+2^63", "base-fee/+2^32",
	// still valid (boundaries, fields no rule constrains on Rinkeby)
	"valid/gas-limit-up-max-allowed", "valid/gas-limit-down-max-allowed", "valid/time=parent+1", "valid/extra-97-bytes", "valid/other-fields",
	// not pinned by the statement
	"either/difficulty=0",
}

// mutate applies kind to a copy of h (valid child of p); ok=false when the
// mutation is not applicable to this header.
func mutate(rng *rand.Rand, kind string, h ethtypes.Header, p *node, bt uint64) (ethtypes.Header, bool) {
	m := cloneHdr(h)
	pl := p.hdr.GasLimit
	bound := pl / 1024
	switch kind {
	case "parent-hash/random":
		m.ParentHash = rbytes(rng, 32)
	case "parent-hash/bitflip":
		m.ParentHash[rng.Intn(32)] ^= 1 << uint(rng.Intn(8))
	case "parent-hash/grandparent":
		if p.parent == nil {
			return m, false
		}
		m.ParentHash = p.parent.hash.Bytes()
	case "parent-hash/own-hash":
		hh := h.Hash()
		m.ParentHash = hh.Bytes()
	case "number/+1":
		m.Height.RevisionHeight++
	case "number/-1":
		m.Height.RevisionHeight--
	case "number/=0":
		m.Height.RevisionHeight = 0
	case "number/+big":
		m.Height.RevisionHeight += 1 + uint64(rng.Intn(1000))*10
	case "number/revision=1":
		m.Height.RevisionNumber = 1
	case "time/=parent":
		m.Time = p.hdr.Time
	case "time/<parent":
		m.Time = p.hdr.Time - 1 - uint64(rng.Intn(100))
	case "time/=0":
		m.Time = 0
	case "time/far-future":
		m.Time = bt + 3601 + uint64(rng.Intn(100000))
	case "gas-limit/up-to-bound":
		if bound == 0 || pl+bound > maxInt63 {
			return m, false
		}
		m.GasLimit = pl + bound
	case "gas-limit/down-to-bound":
		if bound == 0 || pl-bound < 5000 {
			return m, false
		}
		m.GasLimit = pl - bound
	case "gas-limit/up-far":
		if pl > maxInt63/2 {
			return m, false
		}
		m.GasLimit = pl + bound + 1 + uint64(rng.Int63n(int64(pl)))
	case "gas-limit/down-far":
		if pl < 20000 {
			return m, false
		}
		m.GasLimit = 5000 + uint64(rng.Int63n(int64(pl-bound-5000)))
	case "gas-limit/above-2^63-1":
		// single-rule only when the parent limit is 2^63-1 (then +1 is within the 1/1024 bound); otherwise the bound is broken too
		m.GasLimit = maxInt63 + 1 + uint64(rng.Intn(3))
	case "gas-limit/below-5000":
		// only applicable when the 1/1024 bound still holds, i.e. the parent limit is just above 5000
		if pl < 5000 || pl-4999 >= bound {
			return m, false
		}
		m.GasLimit = 4999
	case "gas-used/=limit+1":
		m.GasUsed = m.GasLimit + 1
	case "gas-used/=max":
		m.GasUsed = ^uint64(0)
	case "base-fee/+1":
		m.BaseFee = new(big.Int).Add(new(big.Int).SetBytes(h.BaseFee), big.NewInt(1)).Bytes()
	case "base-fee/-1":
		b := new(big.Int).SetBytes(h.BaseFee)
		if b.Sign() == 0 {
			return m, false
		}
		m.BaseFee = b.Sub(b, big.NewInt(1)).Bytes()
	case "base-fee/empty":
		if new(big.Int).SetBytes(h.BaseFee).Sign() == 0 {
			return m, false
		}
		m.BaseFee = nil
	case "base-fee/parent's":
		if new(big.Int).SetBytes(h.BaseFee).Cmp(new(big.Int).SetBytes(p.hdr.BaseFee)) == 0 {
			return m, false
		}
		m.BaseFee = append([]byte{}, p.hdr.BaseFee...)
	case "base-fee/+2^64", "base-fee/+2^128", "base-fee/+2^63", "base-fee/+2^32":
		// the right value in the low bits, wrong above them (a comparison of truncated integers does not see it)
		sh := map[string]uint{"base-fee/+2^64": 64, "base-fee/+2^128": 128, "base-fee/+2^63": 63, "base-fee/+2^32": 32}[kind]
		m.BaseFee = new(big.Int).Add(new(big.Int).SetBytes(h.BaseFee), new(big.Int).Lsh(big.NewInt(int64(1+rng.Intn(3))), sh)).Bytes()
	case "base-fee/random":
		m.BaseFee = append([]byte{1 + byte(rng.Intn(255))}, rbytes(rng, rng.Intn(12))...)
		if new(big.Int).SetBytes(m.BaseFee).Cmp(new(big.Int).SetBytes(h.BaseFee)) == 0 {
			return m, false
		}
	case "valid/gas-limit-up-max-allowed":
		if bound < 2 || pl+bound-1 > maxInt63 {
			return m, false
		}
		m.GasLimit = pl + bound - 1
	case "valid/gas-limit-down-max-allowed":
		if bound < 2 || pl-(bound-1) < 5000 {
			return m, false
		}
		m.GasLimit = pl - (bound - 1)
	case "valid/time=parent+1":
		m.Time = p.hdr.Time + 1
	case "valid/extra-97-bytes":
		m.Extra = rbytes(rng, 97)
	case "valid/other-fields":
		m.Coinbase, m.TxHash, m.ReceiptHash, m.Bloom = rbytes(rng, 20), rbytes(rng, 32), rbytes(rng, 32), rbytes(rng, 256)
		m.MixDigest, m.Nonce, m.UncleHash = rbytes(rng, 32), rng.Uint64(), rbytes(rng, 32)
	case "either/difficulty=0":
		m.Difficulty = nil
	default:
		panic("unknown mutation " + kind)
	}
	// keep gas used within the (possibly lowered) limit so that only one rule is broken
	if strings.HasPrefix(kind, "gas-limit/") || strings.HasPrefix(kind, "valid/gas-limit") {
		if m.GasUsed > m.GasLimit {
			m.GasUsed = m.GasLimit
		}
	}
	return m, true
}
