// Package c10 monitors C10: the Ethereum light client accepts rule-abiding
// headers only, each accepted header becomes the head, competing branches never
// wedge it, and the consensus states on the head's ancestry carry the
// ancestors' state roots.
package c10

import (
	"bytes"

	"fmt"
	"github.com/ethereum/go-ethereum/common"
	"math/rand"
	"sort"
	"strings"
	"testing"
	"time"

	sdk "github.com/cosmos/cosmos-sdk/types"

	ethtypes "github.com/teleport-network/teleport/x/xibc/clients/light-clients/eth/types"
	clienttypes "github.com/teleport-network/teleport/x/xibc/core/client/types"

	"verif/harness/core"
)

const clientName = "eth-c10"

var clientPrefix = []byte("clients/" + clientName + "/")

type env struct {
	r      *core.Run
	first  map[string]string // violation signature -> first case that showed it
	n      *core.Node
	states map[string]struct{} // distinct model states visited
	hashNE int                 // headers whose repository hash differs from go-ethereum's
}

func TestC10(t *testing.T) {
	r := core.NewRun(t, "C10")
	r.Rule = "Rinkeby mode: generated header trees (branching 1..3, depth <= 12, gas-limit / base-fee / timestamp profiles incl. boundaries, shared state roots as on a clique chain) " +
		"submitted through ClientKeeper.UpdateClient in random / level-order / branch-by-branch topological orders with orphans, re-submissions, single-field mutants and, for every stored header, " +
		"a fresh valid child tried on a discarded branch; PoW mode: recorded main-net headers (chain id 1) unmodified and with one sealed field / nonce / mix digest / difficulty changed. " +
		"A case is one attempted update; distinct = (what was submitted, where it attaches, set of stored headers, head) by tree-position labels, non-trivial = UpdateClient was executed on a live client."
	r.Assume("consensus states and headers are not pruned in the plain tree mode (trusting period far larger than the time span); in prune mode only children of the head are judged for acceptance")
	r.Assume("re-submission of an already stored header, difficulty 0 on Rinkeby and timestamps between block time+15s and +1h are not pinned by the statement (EITHER)")
	defer r.Finish()

	n := core.NewNode(core.NodeConfig{ChainID: "teleport_9000-1", XIBCName: "native-chain", Accounts: []*core.Account{core.NewAccount("a")}})
	n.Begin(time.Date(2022, 1, 2, 0, 0, 5, 0, time.UTC))
	e := &env{r: r, n: n, states: map[string]struct{}{}, first: map[string]string{}}
	r.MinNontrivial(r.N(1500, 40000))

	nTrees := r.N(60, 3000)
	for i := 0; i < nTrees; i++ {
		cid := fmt.Sprintf("tree/%d", i)
		if !r.Want(cid) {
			continue
		}
		runTree(e, cid)
	}
	r.Set("distinct_model_states", len(e.states))
	defer func() { r.Set("first_case_per_violation_signature", e.first) }()
	r.Set("headers_hashing_differently_from_go_ethereum", e.hashNE)

	powCases(e)
	zeroFeeCases(e)
}

// ------------------------------------------------------------------ tree case

type histEntry struct {
	What   string `json:"what"`
	ID     string `json:"id"`
	Parent string `json:"parent,omitempty"`
	Height uint64 `json:"height"`
	Expect string `json:"expect"`
	Rule   string `json:"rule,omitempty"`
	Result string `json:"result"`
	Commit bool   `json:"committed"`
	Head   string `json:"head_after"`
}

type tcase struct {
	e     *env
	id    string
	rng   *rand.Rand
	ctx   sdk.Context // branch holding this tree's client; never written to the node
	mode  string      // plain | prune
	tp    uint64
	clock uint64 // block time (unix seconds) of the next attempt
	tr    *tree
	m     *model
	opts  genOpts
	order string
	hist  []histEntry
	tmpID int
	// ancestors whose consensus state was already found wrong in the committed state: reported once,
	// at the step that introduced the mismatch, not again at every later step that inherits it
	badAnc map[*node]bool
}

func runTree(e *env, cid string) {
	r := e.r
	rng := r.Rng(cid)
	c := &tcase{e: e, id: cid, rng: rng, badAnc: map[*node]bool{}}
	c.ctx, _ = e.n.Ctx().CacheContext()
	c.ctx = c.ctx.WithEventManager(sdk.NewEventManager())
	c.mode = "plain"
	if rng.Intn(7) == 0 {
		c.mode = "prune"
	}
	c.opts = genOpts{emptyBlockProb: []float64{0, 0, 0.3, 0.9}[rng.Intn(4)], siblingRoot: []float64{0, 0.15}[rng.Intn(2)], dtMax: 30}
	if rng.Intn(4) == 0 {
		c.opts = genOpts{dtMax: 30, stateSeq: true, salt: rbytes(rng, 8)}
	}
	size := 6 + rng.Intn(r.N(26, 34))
	c.tr = genTree(rng, size, c.opts)
	c.m = newModel(c.tr.root)
	c.order = []string{"random", "level-order", "branch-by-branch"}[rng.Intn(3)]
	g := c.tr.root
	if c.mode == "plain" {
		c.tp = 1000000000
		c.clock = g.hdr.Time + 1000000
	} else {
		c.tp = 30 + uint64(rng.Intn(150))
		c.clock = g.hdr.Time + 5
	}
	for _, nd := range c.tr.nodes {
		if _, ok := refBaseFee(&nd.hdr); !ok {
			r.Inconclusive("%s: the two reference base-fee computations disagree for %s", cid, nd.id)
			return
		}
		vh := nd.hdr.ToVerifyHeader()
		if vh.Hash() != nd.hash {
			e.hashNE++
		}
	}

	cs := &ethtypes.ClientState{Header: cloneHdr(g.hdr), ChainId: 4, ContractAddress: make([]byte, 20), TrustingPeriod: c.tp, BlockDelay: 0}
	cons := &ethtypes.ConsensusState{Timestamp: g.hdr.Time, Height: g.hdr.Height, Root: append([]byte{}, g.hdr.Root...)}
	ck := e.n.App.XIBCKeeper.ClientKeeper
	if err, _ := core.Catch(func() error {
		return ck.CreateClient(c.ctx.WithBlockTime(time.Unix(int64(c.clock), 0)), clientName, cs, cons)
	}); err != nil {
		r.Inconclusive("%s: CreateClient failed: %v", cid, err)
		return
	}
	r.Count("trees/"+c.mode+"/"+c.order, 1)
	if c.opts.stateSeq {
		r.Count("trees/with_state_sequence_roots", 1)
	}
	c.checkAfter(c.ctx, g, "create", "create", true)

	// submission schedule
	pending := map[*node]bool{}
	for _, nd := range c.tr.nodes[1:] {
		pending[nd] = true
	}
	g.tried = true
	var last *node
	for len(pending) > 0 {
		// candidates in generation order (deterministic)
		var ready, orphans []*node
		for _, nd := range c.tr.nodes[1:] {
			if !pending[nd] {
				continue
			}
			if nd.parent.tried {
				ready = append(ready, nd)
			} else if !nd.orphaned {
				orphans = append(orphans, nd)
			}
		}
		if len(orphans) > 0 && rng.Intn(8) == 0 {
			o := orphans[rng.Intn(len(orphans))]
			o.orphaned = true
			c.attempt(o.hdr, o, true, "orphan")
			continue
		}
		var nd *node
		switch c.order {
		case "level-order":
			min := ready[0].depth
			for _, x := range ready {
				if x.depth < min {
					min = x.depth
				}
			}
			var lv []*node
			for _, x := range ready {
				if x.depth == min {
					lv = append(lv, x)
				}
			}
			nd = lv[rng.Intn(len(lv))]
		case "branch-by-branch":
			if last != nil {
				var kids []*node
				for _, x := range ready {
					if x.parent == last {
						kids = append(kids, x)
					}
				}
				if len(kids) > 0 {
					nd = kids[rng.Intn(len(kids))]
				}
			}
			if nd == nil {
				// the branch is finished (or its continuation was not generated): go back to any fork point
				nd = ready[rng.Intn(len(ready))]
			}
		default:
			nd = ready[rng.Intn(len(ready))]
		}
		// mutants of a valid child before the real submission
		for k := rng.Intn(3); k > 0; k-- {
			c.mutantRound()
		}
		delete(pending, nd)
		nd.tried = true
		last = nd
		c.attempt(nd.hdr, nd, true, "tree-node")
		if rng.Intn(7) == 0 {
			st := c.m.storedSorted()
			x := st[rng.Intn(len(st))]
			c.attempt(x.hdr, x, true, "resubmit")
		}
		if rng.Intn(4) == 0 {
			c.sweep(3)
			c.expiryEdge()
		}
	}
	// final "never wedged" sweep over every stored header, plus a last round of mutants
	c.sweep(0)
	for k := 0; k < 4; k++ {
		c.mutantRound()
	}
	if len(c.hist) > 0 && (cid == "tree/0" || cid == "tree/1") {
		r.Sample(map[string]interface{}{"case": cid, "mode": c.mode, "order": c.order, "tree": c.treeDesc(), "first_steps": c.hist[:minInt(len(c.hist), 12)]})
	}
}

func minInt(a, b int) int {
	if a < b {
		return a
	}
	return b
}

func (c *tcase) viol(key string, detail interface{}) {
	if _, ok := c.e.first[key]; !ok {
		c.e.first[key] = c.id
	}
	c.e.r.Violation(c.id, key, detail)
}

// sweep tries, on a discarded branch, a fresh valid child of stored headers
// (all of them when limit == 0, else a random subset).
func (c *tcase) sweep(limit int) {
	st := c.m.storedSorted()
	if limit > 0 && len(st) > limit {
		c.rng.Shuffle(len(st), func(i, j int) { st[i], st[j] = st[j], st[i] })
		st = st[:limit]
		sort.Slice(st, func(i, j int) bool { return st[i].id < st[j].id })
	}
	for _, p := range st {
		h, _ := genChild(c.rng, p, c.opts)
		c.attempt(h, c.tmpNode(p, h), false, "probe-child")
		if c.rng.Intn(4) == 0 {
			c.rootLengthProbe(p)
		}
	}
}

// rootLengthProbe: a valid child whose state-root FIELD is not 32 bytes long (an extra prefix, or a byte missing). The
// block hash commits to 32 bytes (the field cropped / padded); whether such a header is taken is not pinned by the
// statement, but IF it is, the consensus state kept for its height must be the state root its hash commits to.
func (c *tcase) rootLengthProbe(p *node) {
	r := c.e.r
	ck := c.e.n.App.XIBCKeeper.ClientKeeper
	h, _ := genChild(c.rng, p, c.opts)
	shape := "prefixed-with-32-bytes"
	if c.rng.Intn(3) == 0 {
		shape = "first-byte-missing"
		h.Root = append([]byte{}, h.Root[1:]...)
	} else {
		h.Root = append(rbytes(c.rng, 32), h.Root...)
	}
	committed := common.BytesToHash(h.Root)
	uctx, _ := c.ctx.CacheContext()
	uctx = uctx.WithBlockTime(time.Unix(int64(c.blockTimeFor(h.Time)), 0)).WithEventManager(sdk.NewEventManager())
	sub := cloneHdr(h)
	err, panicked := core.Catch(func() error { return ck.UpdateClient(uctx, clientName, &sub) })
	r.Eval(fmt.Sprintf("root-length|%s|%s|%s", shape, p.id, c.m.digest()), true)
	switch {
	case panicked:
		c.viol("panic/update-client/root-length/"+shape, map[string]interface{}{"panic": err.Error()})
	case err != nil:
		r.Count("root_length_probe/"+shape+"/refused", 1)
	default:
		r.Count("root_length_probe/"+shape+"/accepted", 1)
		cons, found := ck.GetClientConsensusState(uctx, clientName, h.Height)
		if !found || !bytes.Equal(cons.GetRoot(), committed.Bytes()) {
			got := []byte(nil)
			if found {
				got = cons.GetRoot()
			}
			c.viol("consensus-root/not-the-state-root-the-accepted-header-commits-to/root-field-"+shape, map[string]interface{}{"parent": p.id, "root_field": core.Hex(h.Root), "hash_commits_to": committed.Hex(), "stored": core.Hex(got)})
		}
	}
}

// expiryEdge (prune mode): the update that arrives right after the OLDEST stored header has expired - and so is the one
// that prunes it - carries a valid child of exactly that header. Nothing had been pruned before, the head is alive.
func (c *tcase) expiryEdge() {
	if c.mode != "prune" {
		return
	}
	st := c.m.storedSorted()
	if len(st) < 2 {
		return
	}
	old := st[0]
	for _, n := range st {
		if n.height() < old.height() {
			old = n
		}
	}
	bt := old.hdr.Time + c.tp + 1
	if old == c.m.head || bt < c.clock || c.m.head.hdr.Time+c.tp < bt {
		return
	}
	h, _ := genChild(c.rng, old, c.opts)
	if h.Time > bt+10 {
		return
	}
	c.e.r.Count("prune_mode/child-of-the-oldest-header-at-the-moment-it-expires", 1)
	c.attemptAt(h, c.tmpNode(old, h), false, "probe-child-at-parents-expiry", bt)
}

func (c *tcase) tmpNode(p *node, h ethtypes.Header) *node {
	c.tmpID++
	n := &node{id: fmt.Sprintf("%s.x%d", p.id, c.tmpID), hdr: h, parent: p, depth: p.depth + 1}
	n.hash = n.hdr.Hash()
	return n
}

// mutantRound derives one mutant from a fresh valid child of a stored header
// (the head most of the time, so that only the mutated rule can explain a rejection).
func (c *tcase) mutantRound() {
	p := c.m.head
	if c.rng.Intn(10) < 3 {
		st := c.m.storedSorted()
		p = st[c.rng.Intn(len(st))]
	}
	base, _ := genChild(c.rng, p, c.opts)
	bt := c.blockTimeFor(base.Time)
	for try := 0; try < 6; try++ {
		kind := mutKinds[c.rng.Intn(len(mutKinds))]
		if pl := p.hdr.GasLimit; try == 0 && pl >= 5000 && pl-4999 < pl/1024 && c.rng.Intn(2) == 0 {
			kind = "gas-limit/below-5000" // rarely applicable: take the opportunity
		}
		mh, ok := mutate(c.rng, kind, base, p, bt)
		if !ok {
			continue
		}
		c.attemptAt(mh, c.tmpNode(p, mh), false, "mutant:"+kind, bt)
		return
	}
}

// blockTimeFor returns the block time of an attempt whose honest header time is t.
func (c *tcase) blockTimeFor(t uint64) uint64 {
	if c.mode == "prune" && t+5 > c.clock {
		c.clock = t + 5
	}
	return c.clock
}

func (c *tcase) attempt(h ethtypes.Header, nd *node, commit bool, what string) bool {
	return c.attemptAt(h, nd, commit, what, c.blockTimeFor(h.Time))
}

// attemptAt submits one header in its own cache context and judges the outcome.
func (c *tcase) attemptAt(h ethtypes.Header, nd *node, commit bool, what string, bt uint64) bool {
	e, r := c.e, c.e.r
	ck := e.n.App.XIBCKeeper.ClientKeeper
	j := c.m.judge(&h, bt)
	height := h.Height.RevisionHeight
	rel := "no-stored-parent"
	if j.parent != nil {
		rel = relation(c.m, j, height)
	}
	// mode-dependent weakening (never strengthening) of the expectation
	if c.mode == "prune" && j.v == mustAccept {
		switch {
		case c.m.head.hdr.Time+c.tp < bt:
			j.v, j.rule = either, "client-expired"
		case j.parent != c.m.head:
			// pruning removes expired headers one per update; once history is gone a branch below it cannot be followed any
			// more (not pinned by the statement). As long as NOTHING has been pruned - every header the client ever accepted is
			// still in its store - the tree is complete and a valid child of any stored header must be accepted, also when the
			// update that carries it is the one that prunes
			st := ck.ClientStore(c.ctx, clientName)
			complete := true
			for _, nd := range c.m.stored {
				if !st.Has(ethtypes.EthHeaderIndexKey(nd.hdr.Hash(), nd.hdr.Height.RevisionHeight)) {
					complete = false
					break
				}
			}
			if complete {
				r.Count("prune_mode/child-of-a-non-head-header-judged-while-nothing-was-pruned-yet", 1)
			} else {
				j.v, j.rule = either, "prune-mode/history-has-been-pruned"
			}
		}
	}
	kindLabel := what
	if i := strings.Index(what, ":"); i >= 0 {
		kindLabel = what[:i]
	}
	pid := ""
	if j.parent != nil {
		pid = j.parent.id
	}
	r.Eval(fmt.Sprintf("%s|%s|%s|%s|%s", what, j.rule, rel, pid, c.m.digest()), true)

	pre := e.n.DumpPrefix(c.ctx, "xibc", clientPrefix)
	uctx, write := c.ctx.CacheContext()
	uctx = uctx.WithBlockTime(time.Unix(int64(bt), 0)).WithEventManager(sdk.NewEventManager())
	sub := cloneHdr(h)
	err, panicked := core.Catch(func() error { return ck.UpdateClient(uctx, clientName, &sub) })
	result := "accepted"
	if err != nil {
		result = "rejected: " + err.Error()
	}
	entry := histEntry{What: what, ID: nd.id, Parent: pid, Height: height, Expect: j.v.String(), Rule: j.rule, Result: result}
	r.Count(fmt.Sprintf("%s/%s/%s", kindLabel, j.v, map[bool]string{true: "accepted", false: "rejected"}[err == nil]), 1)
	if j.parent != nil && j.v != mustReject {
		r.Count(fmt.Sprintf("valid/%s/%s", rel, map[bool]string{true: "accepted", false: "rejected"}[err == nil]), 1)
	}
	if j.v == mustReject {
		r.Count("must_reject_by_rule/"+j.rule, 1)
	}

	detail := func(extra map[string]interface{}) map[string]interface{} {
		d := map[string]interface{}{
			"mode": c.mode, "order": c.order, "tree": c.treeDesc(), "stored": c.m.digest(), "submitted": hdrDesc(&h), "what": what,
			"expected": j.v.String(), "rule": j.rule, "relation": rel, "block_time": bt, "history": append(append([]histEntry{}, c.hist...), entry),
		}
		for k, v := range extra {
			d[k] = v
		}
		return d
	}

	switch {
	case panicked:
		c.viol("panic/update-client/"+kindLabel, detail(map[string]interface{}{"panic": err.Error()}))
	case err == nil && j.v == mustReject:
		c.viol("accepted-invalid/rinkeby/"+j.rule, detail(nil))
	case err != nil && j.v == mustAccept:
		key := "wedged/" + rel + "/err=" + errSlug(err)
		if j.parent == c.m.head {
			key = "rejected-valid/child-of-head/err=" + errSlug(err)
		}
		c.viol(key, detail(map[string]interface{}{"error": err.Error()}))
	}

	accepted := err == nil && !panicked
	if accepted && j.v != mustReject && j.parent == nil {
		r.Count("observed/accepted_header_with_nonzero_revision_number", 1)
	}
	if accepted && j.v != mustReject && j.parent != nil {
		// consequences are checked on the branch that holds the update, committed or not
		c.checkAfter(uctx, nd, rel, what, commit)
	}
	if accepted && commit && j.v != mustReject && j.parent != nil {
		write()
		if !j.resub {
			c.m.add(nd)
			c.m.head = nd
		} else {
			c.m.head = c.m.get(nd.hash, nd.height())
		}
		entry.Commit = true
		e.states[c.m.digest()] = struct{}{}
	} else {
		// a rejected (or discarded) update leaves the client's store byte-identical
		post := e.n.DumpPrefix(c.ctx, "xibc", clientPrefix)
		if d := core.Diff("xibc", pre, post); len(d) > 0 {
			c.viol("rejected-update-changed-client-store/"+kindLabel, detail(map[string]interface{}{"diff": core.TrimDiff(d, 10)}))
		}
		if err != nil {
			if d := core.Diff("xibc", pre, e.n.DumpPrefix(uctx, "xibc", clientPrefix)); len(d) > 0 {
				r.Count("observed/rejected_update_left_writes_in_its_discarded_branch", 1)
			}
		}
	}
	entry.Head = c.m.head.id
	if commit {
		c.hist = append(c.hist, entry)
	}
	return accepted
}

// checkAfter verifies, on ctx (where nd has just been accepted), that nd is the
// client's head and that every consensus state kept for a height on nd's
// ancestry carries that ancestor's state root.
func (c *tcase) checkAfter(ctx sdk.Context, nd *node, rel, what string, commit bool) {
	e, r := c.e, c.e.r
	ck := e.n.App.XIBCKeeper.ClientKeeper
	csI, ok := ck.GetClientState(ctx, clientName)
	cs, ok2 := csI.(*ethtypes.ClientState)
	if !ok || !ok2 {
		c.viol("head/client-state-missing/after-"+rel, map[string]interface{}{"what": what, "history": c.hist})
		return
	}
	hh := cs.Header.Hash()
	if hh != nd.hash || cs.Header.Height.RevisionHeight != nd.height() {
		c.viol("head/not-the-accepted-header/after-"+rel, map[string]interface{}{
			"what": what, "accepted": nd.id, "accepted_hash": nd.hash.Hex(), "client_head_hash": hh.Hex(), "client_head_height": cs.Header.Height.RevisionHeight,
			"tree": c.treeDesc(), "history": c.hist,
		})
	}
	r.Count("checked/head", 1)
	present := 0
	for a := nd; a != nil; a = a.parent {
		cons, found := ck.GetClientConsensusState(ctx, clientName, clienttypes.NewHeight(0, a.height()))
		if !found {
			r.Count("checked/ancestry_heights_without_consensus_state", 1)
			continue
		}
		present++
		if bytes.Equal(cons.GetRoot(), a.hdr.Root) {
			if commit {
				delete(c.badAnc, a)
			}
			continue
		}
		if c.badAnc[a] {
			r.Count("checked/inherited_wrong_consensus_roots_not_reported_again", 1)
			continue
		}
		if commit {
			c.badAnc[a] = true
		}
		{
			where := "below-head"
			if a == nd {
				where = "at-head"
			}
			other := ""
			for _, x := range c.tr.nodes {
				if x.height() == a.height() && bytes.Equal(x.hdr.Root, cons.GetRoot()) {
					other = x.id
				}
			}
			c.viol("consensus-root/wrong-on-head-ancestry/"+where+"/after-"+rel, map[string]interface{}{
				"what": what, "head": nd.id, "ancestor": a.id, "height": a.height(), "ancestor_root": core.Hex(a.hdr.Root), "stored_root": core.Hex(cons.GetRoot()),
				"stored_root_belongs_to": other, "tree": c.treeDesc(), "history": c.hist,
			})
		}
	}
	r.Count("checked/ancestry_consensus_roots", present)
}

func (c *tcase) treeDesc() []string {
	var out []string
	for _, nd := range c.tr.nodes {
		out = append(out, fmt.Sprintf("%s h=%d t=%d root=%x gl=%d gu=%d", nd.id, nd.height(), nd.hdr.Time, nd.hdr.Root[:4], nd.hdr.GasLimit, nd.hdr.GasUsed))
	}
	return out
}

func hdrDesc(h *ethtypes.Header) map[string]interface{} {
	return map[string]interface{}{
		"parent_hash": core.Hex(h.ParentHash), "number": h.Height.RevisionHeight, "revision": h.Height.RevisionNumber, "time": h.Time, "gas_limit": h.GasLimit, "gas_used": h.GasUsed,
		"base_fee": core.Hex(h.BaseFee), "difficulty": core.Hex(h.Difficulty), "root": core.Hex(h.Root), "extra_len": len(h.Extra), "nonce": h.Nonce,
	}
}
