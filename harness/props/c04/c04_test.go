// Package c04 monitors C04: gap-free send sequences, one commitment per send,
// failed sends change nothing.
package c04

import (
	"bytes"
	"crypto/sha256"
	"fmt"
	tsstypes "github.com/teleport-network/teleport/x/xibc/clients/tss-client/types"
	"math/big"
	"sort"
	"strconv"
	"strings"
	"testing"

	sdk "github.com/cosmos/cosmos-sdk/types"
	banktypes "github.com/cosmos/cosmos-sdk/x/bank/types"
	"github.com/ethereum/go-ethereum/common"
	ethtypes "github.com/ethereum/go-ethereum/core/types"

	"github.com/teleport-network/teleport/syscontracts"
	agentcontract "github.com/teleport-network/teleport/syscontracts/xibc_agent"
	packetkeeper "github.com/teleport-network/teleport/x/xibc/core/packet/keeper"
	packettypes "github.com/teleport-network/teleport/x/xibc/core/packet/types"

	"verif/harness/core"
	"verif/harness/pkt"
)

type mon struct {
	r   *core.Run
	cid string
	s   *pkt.Sim
	// model per (src chain, dst name): next sequence and the set of unacked sequences with their packet bytes
	next  map[string]uint64
	open  map[string]map[uint64][]byte
	dsts  map[string]bool // every destination name ever used
	multi map[string]common.Address
}

func key(src *core.Node, dst string) string { return src.Name + "|" + dst }

func TestC04(t *testing.T) {
	r := core.NewRun(t, "C04")
	r.Rule = "seeded histories of cross-chain calls from 3 chains to known and unknown destinations: valid sends (several per block), invalid sends (unknown destination client, zero amount, amount above balance, missing allowance, direct packet.sendPacket with wrong/forged fields), multi-send contracts whose second send fails after the first succeeded, injected failure of the chain->contract setSequence call, interleaved with receives and acks. After EVERY transaction both counters, the commitment set and the commitment values are compared with the model. Non-trivial = a delivered send transaction (distinct by history and position) that reached the endpoint/packet contract."
	defer r.Finish()
	H, L := r.N(8, 250), r.N(45, 110)
	for h := 0; h < H; h++ {
		cid := fmt.Sprintf("hist/%d", h)
		if !r.Want(cid) {
			continue
		}
		func() {
			defer func() {
				packetkeeper.VerifClearFaults()
				if rec := recover(); rec != nil {
					r.Violation(cid, "panic/monitor-or-code", map[string]interface{}{"panic": fmt.Sprint(rec)})
				}
			}()
			runHistory(r, cid, L)
		}()
	}
	r.MinNontrivial(r.N(120, 6000))
}

const tssDst = "tss-chain"

func runHistory(r *core.Run, cid string, L int) {
	rng := r.Rng(cid)
	s, err := pkt.NewSim(rng, pkt.Config{Chains: 3, Users: 3, Relayers: 2, Tokens: 2, Native: true})
	if err != nil {
		r.Inconclusive("%s: world construction failed: %v", cid, err)
		return
	}
	m := &mon{r: r, cid: cid, s: s, next: map[string]uint64{}, open: map[string]map[uint64][]byte{}, dsts: map[string]bool{"no-such-chain": true}, multi: map[string]common.Address{}}
	for _, n := range s.W.Nodes {
		m.dsts[n.Name] = true
		// a counterparty this chain follows with a TSS client (no proofs are verified for it): sends to it are sends like any other
		if err := n.App.XIBCKeeper.ClientKeeper.CreateClient(n.Ctx(), tssDst, &tsstypes.ClientState{TssAddress: s.W.Relayers[0].Bech32()}, &tsstypes.ConsensusState{}); err != nil {
			r.Inconclusive("%s: cannot create the TSS client: %v", cid, err)
			return
		}
		s.W.Roll(n)
	}
	m.checkAll("init")
	// before anything was sent (all counters at 1): a PacketSent log naming ANOTHER chain as source, for every path
	for _, a := range s.W.Nodes {
		for _, b := range s.W.Nodes {
			if a != b {
				m.hookProbeOn(a, b, 0)
			}
		}
	}
	m.foreignEmitter()
	m.multiSendV(5, 1)
	for i := 0; i < L; i++ {
		x := rng.Intn(100)
		switch {
		case x < 35:
			m.validSend()
		case x < 57:
			m.invalidSend()
		case x < 58:
			m.hookProbe()
		case x < 60:
			m.foreignEmitter()
		case x < 66:
			m.multiSend()
		case x < 70:
			m.nestedSend()
		case x < 75:
			m.faultedSend()
		case x < 85:
			if pr := s.PendingRecv(); len(pr) > 0 {
				_, _ = s.HonestRecv(pr[rng.Intn(len(pr))], s.RandRelayer())
			}
		case x < 95:
			if pa := s.PendingAck(); len(pa) > 0 {
				p := pa[rng.Intn(len(pa))]
				if o, err := s.HonestAck(p, s.RandRelayer()); err == nil && o.OK() {
					delete(m.open[key(p.SrcN, p.Dst)], p.Packet.Sequence)
					r.Count("acks", 1)
				}
				m.checkAll("ack")
			}
		case x < 97:
			// governance replaces or upgrades the client of one path: commitments and counters are not its business
			a, b := s.RandNodePair()
			if err := s.GovClientOp(a, b); err != nil {
				r.Inconclusive("%s: client toggle / upgrade failed: %v", cid, err)
				return
			}
			r.Count("client_toggles_and_upgrades", 1)
			m.checkAll("client toggle / upgrade")
		default:
			s.W.Roll(s.W.Nodes[rng.Intn(len(s.W.Nodes))])
		}
		if r.Violations() > 0 && !r.Replaying() {
			return
		}
	}
	// every history closes with one PacketSent log of each kind the contract would not emit, on a path that has seen traffic
	for v := 1; v < 8; v++ {
		a, b := s.RandNodePair()
		m.hookProbeOn(a, b, v)
	}
	m.checkAll("closing hook probes")
	r.Sample(map[string]interface{}{"history": cid, "ops": len(s.Log), "next": m.next})
}

// observeSend applies the oracle to one delivered send transaction.
func (m *mon) observeSend(src *core.Node, what string, o *pkt.Obs, spec pkt.SendSpec) {
	m.r.Eval(fmt.Sprintf("%s/%d/%s", m.cid, len(m.s.Log), what), o.Code != 1<<30)
	if !o.OK() {
		m.r.Count("failed_sends/"+what, 1)
		if len(o.Diff) != 0 {
			m.r.Violation(m.cid, "failed-send-changed-state/"+what, map[string]interface{}{"diff": core.TrimDiff(o.Diff, 10), "vmerr": vmErr(o), "log": m.s.Log})
		}
		m.checkAll("failed " + what)
		return
	}
	m.r.Count("ok_sends/"+what, 1)
	// sequences emitted, per destination, in log order
	logs := core.PacketSentBytes(o.Eth.Logs)
	evs := core.SendPackets(o.Result.Events)
	if len(logs) != len(evs) {
		m.r.Violation(m.cid, "events/PacketSent-logs-vs-EventSendPacket-count", map[string]interface{}{"logs": len(logs), "events": len(evs), "what": what})
	}
	for i, raw := range logs {
		var p packettypes.Packet
		if err := p.ABIDecode(raw); err != nil {
			m.r.Violation(m.cid, "events/undecodable-PacketSent", map[string]interface{}{"bytes": core.Hex(raw)})
			continue
		}
		if dn := m.s.W.ByName[p.DstChain]; p.DstChain != tssDst && (dn == nil || dn == src) {
			m.r.Violation(m.cid, "send/accepted-for-a-destination-without-client", map[string]interface{}{"destination": p.DstChain, "chain": src.Name, "what": what})
		}
		k := key(src, p.DstChain)
		m.dsts[p.DstChain] = true
		want := m.nextOf(k)
		if p.SrcChain != src.Name {
			m.r.Violation(m.cid, "sequence/packet-with-foreign-source-accepted", map[string]interface{}{"src": p.SrcChain, "chain": src.Name})
		}
		if p.Sequence != want {
			m.r.Violation(m.cid, "sequence/not-next", map[string]interface{}{"path": k, "got": p.Sequence, "want": want, "what": what, "log": m.s.Log})
		}
		if i < len(evs) {
			e := evs[i]
			if !bytes.Equal(e.Packet, raw) || e.Sequence != strconv.FormatUint(p.Sequence, 10) || e.SrcChain != p.SrcChain || e.DstChain != p.DstChain {
				m.r.Violation(m.cid, "events/EventSendPacket-differs-from-PacketSent-log", map[string]interface{}{"path": k, "seq": p.Sequence})
			}
		}
		m.next[k] = want + 1
		if m.open[k] == nil {
			m.open[k] = map[uint64][]byte{}
		}
		m.open[k][p.Sequence] = raw
		m.s.Register(&core.SentPacket{Bytes: raw, Packet: p, Src: p.SrcChain, Dst: p.DstChain}, spec, src)
		m.r.Count("packets_sent", 1)
	}
	m.checkAll(what)
}

func vmErr(o *pkt.Obs) string {
	if o.Eth != nil {
		return o.Eth.VmError
	}
	return ""
}

func (m *mon) nextOf(k string) uint64 {
	if v, ok := m.next[k]; ok {
		return v
	}
	return 1
}

// checkAll compares counters and commitments of every chain with the model.
func (m *mon) checkAll(step string) {
	for _, n := range m.s.W.Nodes {
		ctx := n.Ctx()
		pk := n.App.XIBCKeeper.PacketKeeper
		for dst := range m.dsts {
			if dst == n.Name {
				continue
			}
			k := key(n, dst)
			chain := pk.GetNextSequenceSend(ctx, n.Name, dst)
			contract := n.ContractNextSeq(dst)
			m.r.Count("counter_comparisons", 1)
			if chain != contract {
				m.r.Violation(m.cid, "counters/chain-and-contract-disagree", map[string]interface{}{"path": k, "chain": chain, "contract": contract, "step": step, "log": m.s.Log})
			}
			if chain != m.nextOf(k) {
				m.r.Violation(m.cid, "counters/chain-counter-differs-from-model", map[string]interface{}{"path": k, "chain": chain, "model": m.nextOf(k), "step": step, "log": m.s.Log})
			}
		}
		// commitments whose source is this chain
		got := map[string][]byte{}
		for _, c := range pk.GetAllPacketCommitments(ctx) {
			if c.SrcChain == n.Name {
				got[fmt.Sprintf("%s|%d", key(n, c.DstChain), c.Sequence)] = c.Data
			}
		}
		want := map[string][]byte{}
		for k, set := range m.open {
			if len(k) > len(n.Name) && k[:len(n.Name)+1] == n.Name+"|" {
				for seq, raw := range set {
					h := sha256.Sum256(raw)
					want[fmt.Sprintf("%s|%d", k, seq)] = h[:]
				}
			}
		}
		var gk, wk []string
		for k := range got {
			gk = append(gk, k)
		}
		for k := range want {
			wk = append(wk, k)
		}
		sort.Strings(gk)
		sort.Strings(wk)
		if fmt.Sprint(gk) != fmt.Sprint(wk) {
			m.r.Violation(m.cid, "commitments/set-differs-from-unacked-sends", map[string]interface{}{"chain": n.Name, "store": gk, "model": wk, "step": step, "log": m.s.Log})
			continue
		}
		for k, v := range want {
			if !bytes.Equal(got[k], v) {
				m.r.Violation(m.cid, "commitments/value-is-not-hash-of-emitted-bytes", map[string]interface{}{"key": k, "step": step})
			}
		}
		m.r.Count("commitments_checked", len(want))
	}
}

func (m *mon) validSend() {
	sp := m.s.RandSendSpec([]string{"counter", ""})
	// several sends in the same block: do not roll
	n := 1 + m.s.Rng.Intn(3)
	for i := 0; i < n; i++ {
		what := "valid"
		if m.s.Rng.Intn(5) == 0 {
			// a call-only packet to the TSS-followed counterparty
			sp = pkt.SendSpec{Src: sp.Src, Dst: sp.Src, DstName: tssDst, User: sp.User, Call: pkt.CallSpec{Kind: "raw", Contract: "0x0000000000000000000000000000000000000001", Data: []byte{1}}}
			what = "valid-to-tss-followed-chain"
		}
		o, _ := m.sendRaw(sp)
		m.observeSend(sp.Src, what, o, sp)
		sp = m.s.RandSendSpec([]string{"counter", ""})
	}
}

// sendRaw delivers the crossChainCall without letting the Sim register packets (the monitor does it).
func (m *mon) sendRaw(sp pkt.SendSpec) (*pkt.Obs, error) {
	d, fee := m.s.CrossChainData(sp)
	tx, err := m.s.W.CrossChainTx(sp.Src, sp.User, d, fee)
	if err != nil {
		return &pkt.Obs{Node: sp.Src, Code: 1 << 30, What: err.Error()}, err
	}
	return m.s.DeliverEth(sp.Src, "crossChainCall "+sp.Describe(), tx), nil
}

func (m *mon) invalidSend() {
	s := m.s
	sp := s.RandSendSpec(nil)
	what := ""
	switch s.Rng.Intn(7) {
	case 0:
		sp.DstName = "no-such-chain"
		what = "unknown-destination"
		if s.Rng.Intn(2) == 0 {
			// names that are not chains but read like one that has a client (the destination of a packet is a free string)
			d := sp.Dst.Name
			sp.DstName = []string{d + "/consensusStates", d + "/consensusStates", d + "/consensusStates", d + "/consensusStates", d + "/clientState", d + "/", d + "/consensusStates/", strings.ToUpper(d), d[:len(d)-1], d + "x", " " + d, d + "/relayers"}[s.Rng.Intn(12)]
			what = "unknown-destination/look-alike"
		}
	case 1:
		if sp.Token == nil {
			return
		}
		sp.Amount = big.NewInt(0)
		sp.Call = pkt.CallSpec{}
		what = "zero-amount-no-call"
	case 2:
		if sp.Token == nil {
			return
		}
		sp.Amount = new(big.Int).Exp(big.NewInt(10), big.NewInt(40), nil)
		what = "amount-above-balance"
	case 3:
		// a user who never approved the endpoint: the admin account holds no allowance
		if sp.Token == nil || sp.Token.AddrOn(sp.Src) == core.ZeroAddr {
			return
		}
		sp.User = s.W.Admin
		what = "missing-allowance-or-balance"
	case 4:
		sp.DstName = sp.Src.Name
		what = "destination-is-self"
	case 5:
		m.directSendPacket(sp.Src, sp.Dst)
		return
	case 6:
		sp.DstName = ""
		sp.Dst = nil
		d, fee := packettypes.CrossChainData{DstChain: "", TokenAddress: core.ZeroAddr, Amount: big.NewInt(5), Receiver: "x", CallData: []byte{}}, packettypes.Fee{Amount: big.NewInt(0)}
		tx, err := s.W.CrossChainTx(sp.Src, sp.User, d, fee)
		if err != nil {
			return
		}
		o := s.DeliverEth(sp.Src, "crossChainCall empty-destination", tx)
		m.observeSend(sp.Src, "empty-destination", o, sp)
		return
	}
	o, _ := m.sendRaw(sp)
	m.observeSend(sp.Src, what, o, sp)
}

// directSendPacket calls packet.sendPacket from an EOA with a hand-made packet.
func (m *mon) directSendPacket(src, dst *core.Node) {
	s := m.s
	u := s.RandUser()
	k := key(src, dst.Name)
	p := packettypes.Packet{SrcChain: src.Name, DstChain: dst.Name, Sequence: m.nextOf(k), Sender: pkt.LowerHex(u.Eth), TransferData: []byte{}, CallData: []byte{1}, CallbackAddress: "", FeeOption: 0}
	what := "direct-sendPacket/"
	switch s.Rng.Intn(4) {
	case 0:
		what += "correct-fields"
	case 1:
		p.Sequence += uint64(1 + s.Rng.Intn(3))
		what += "wrong-sequence"
	case 2:
		p.SrcChain = dst.Name
		p.DstChain = src.Name
		what += "forged-source"
	case 3:
		p.Sequence = 0
		what += "sequence-zero"
	}
	data, err := core.PacketABI.Pack("sendPacket", p, packettypes.Fee{TokenAddress: core.ZeroAddr, Amount: big.NewInt(0)})
	if err != nil {
		return
	}
	to := core.PacketAddr
	tx, err := src.EthTx(u, &to, nil, 3_000_000, data)
	if err != nil {
		return
	}
	o := s.DeliverEth(src, what, tx)
	m.observeSend(src, what, o, pkt.SendSpec{Src: src, Dst: dst, User: u})
}

// multiSend: one EVM transaction performing two native-coin sends through a
// contract; variants make the second one fail in the EVM or in the hook.
func (m *mon) multiSend() { m.multiSendV(-1, -1) }

func (m *mon) multiSendV(forceVariant, forceCtor int) {
	s := m.s
	src, dst := s.RandNodePair()
	nat := s.Tokens[len(s.Tokens)-1]
	if nat.Addr != core.ZeroAddr || nat.Origin != src {
		src = nat.Origin
		for _, n := range s.W.Nodes {
			if n != src {
				dst = n
			}
		}
	}
	mk := func(dstName string, amount int64) core.Step {
		d := packettypes.CrossChainData{DstChain: dstName, TokenAddress: core.ZeroAddr, Receiver: pkt.LowerHex(s.RandUser().Eth), Amount: big.NewInt(amount), CallData: []byte{}}
		data, _ := core.EndpointABI.Pack("crossChainCall", d, packettypes.Fee{TokenAddress: core.ZeroAddr, Amount: big.NewInt(0)})
		return core.Step{Kind: core.KindCall, Target: core.EndpointAddr, Data: data, Value: uint64(amount), MustOK: true, ThenStore: 7}
	}
	variant := s.Rng.Intn(7)
	if forceVariant >= 0 {
		variant = forceVariant
	}
	var steps []core.Step
	what := "multi/"
	switch variant {
	case 0:
		steps = []core.Step{mk(dst.Name, 11), mk(dst.Name, 12)}
		what += "two-valid"
	case 1:
		steps = []core.Step{mk(dst.Name, 11), mk("no-such-chain", 12)}
		what += "second-unknown-destination"
	case 2:
		st := mk(dst.Name, 12)
		st.Value = 0 // value missing: the endpoint must revert, MustOK bubbles it up
		steps = []core.Step{mk(dst.Name, 11), st}
		what += "second-reverts-bubbled"
	case 3:
		st := mk(dst.Name, 12)
		st.Value = 0
		st.MustOK = false // inner revert swallowed: only the first send happened
		steps = []core.Step{mk(dst.Name, 11), st, mk(dst.Name, 13)}
		what += "middle-reverts-swallowed"
	case 4:
		// the same call twice: both PacketSent logs carry the same sequence AND byte-identical packets
		st := mk(dst.Name, 11)
		steps = []core.Step{st, st}
		what += "two-identical"
	default:
		// one send made by a contract (the only shape of this family that succeeds: a second send in the same transaction
		// carries the same sequence, because the contract's counter is advanced by the module after the transaction)
		steps = []core.Step{mk(dst.Name, 11)}
		what += "single"
	}
	if ctor := s.Rng.Intn(2); forceCtor == 1 || (forceCtor < 0 && ctor == 0) {
		// the same calls made by a constructor: a create transaction (no recipient) whose init code is the call list and
		// whose value funds it. Sends made while a contract is being deployed are sends like any other.
		what = "constructor-" + what
		tx, err := src.EthTx(s.RandUser(), nil, big.NewInt(1000), 5_000_000, core.Multicall(steps))
		if err != nil {
			return
		}
		o := s.DeliverEth(src, what, tx)
		m.observeSend(src, what, o, pkt.SendSpec{Src: src, Dst: dst, User: s.W.Admin})
		return
	}
	addr, err := src.DeployRuntime(s.W.Admin.Eth, core.Multicall(steps))
	if err != nil {
		return
	}
	// fund the contract with native coins through a real bank send
	fund := banktypes.NewMsgSend(s.W.Admin.Acc, sdk.AccAddress(addr.Bytes()), sdk.NewCoins(sdk.NewInt64Coin(core.BondDenom, 1000)))
	if o := s.Deliver(src, s.W.Admin, "fund multicall", fund); !o.OK() {
		return
	}
	tx, err := src.EthTx(s.RandUser(), &addr, nil, 5_000_000, []byte{})
	if err != nil {
		return
	}
	o := s.DeliverEth(src, what, tx)
	m.observeSend(src, what, o, pkt.SendSpec{Src: src, Dst: dst, User: s.W.Admin})
}

// foreignEmitter: an ordinary account deploys a contract that emits a byte-exact PacketSent(bytes) log for the packet that
// would be next on a path (right source, known destination, next sequence) and calls it in a real transaction. Only the
// packet contract's own logs are sends: nothing may be numbered, committed or announced for it.
func (m *mon) foreignEmitter() {
	s := m.s
	src, dst := s.RandNodePair()
	p := packettypes.Packet{SrcChain: src.Name, DstChain: dst.Name, Sequence: m.nextOf(key(src, dst.Name)), Sender: pkt.LowerHex(s.RandUser().Eth), TransferData: []byte{}, CallData: []byte{1}, CallbackAddress: "", FeeOption: 0}
	bz, err := p.ABIPack()
	if err != nil {
		return
	}
	ev := core.PacketABI.Events[packettypes.PacketSendEvent]
	data, err := ev.Inputs.Pack(bz)
	if err != nil {
		return
	}
	addr, err := src.DeployRuntime(s.RandUser().Eth, core.Emitter([]common.Hash{ev.ID}, data))
	if err != nil {
		return
	}
	tx, err := src.EthTx(s.RandUser(), &addr, nil, 1_000_000, []byte{})
	if err != nil {
		return
	}
	what := "look-alike-PacketSent-from-a-user-contract"
	o := s.DeliverEth(src, what, tx)
	if o.OK() {
		found := false
		for _, l := range o.Eth.Logs {
			found = found || (l.Address == addr && len(l.Topics) == 1 && l.Topics[0] == ev.ID)
		}
		if found {
			m.r.Count("look_alike_logs_emitted_by_user_contracts", 1)
		}
	}
	m.observeSend(src, what, o, pkt.SendSpec{Src: src, Dst: dst, User: s.W.Admin})
}

// hookProbe hands the send hook a PacketSent log the packet contract would not emit in this state (foreign source chain,
// wrong or zero sequence, unknown destination, source = destination, no data) in a receipt of its own, on a discarded
// branch. The hook is the chain-side gate for whatever the contract logs: it must refuse every one of them (its error is
// what reverts the EVM transaction).
func (m *mon) hookProbe() {
	src, dst := m.s.RandNodePair()
	m.hookProbeOn(src, dst, -1)
}

func (m *mon) hookProbeOn(src, dst *core.Node, force int) {
	s := m.s
	var third string
	for _, n := range s.W.Nodes {
		if n != src && n != dst {
			third = n.Name
		}
	}
	good := packettypes.Packet{SrcChain: src.Name, DstChain: dst.Name, Sequence: m.nextOf(key(src, dst.Name)), Sender: pkt.LowerHex(s.RandUser().Eth), TransferData: []byte{}, CallData: []byte{1}, CallbackAddress: "", FeeOption: 0}
	p := good
	variant := ""
	pickV := s.Rng.Intn(8)
	if force >= 0 {
		pickV = force
	}
	switch pickV {
	case 0:
		p.SrcChain, p.Sequence = third, 1
		variant = "foreign-source"
	case 1:
		p.Sequence += 1 + uint64(s.Rng.Intn(3))
		variant = "sequence-ahead"
	case 2:
		p.Sequence = 0
		variant = "sequence-zero"
	case 3:
		p.DstChain, p.Sequence = "no-such-chain", 1
		variant = "unknown-destination"
	case 4:
		p.DstChain = src.Name
		variant = "destination-is-self"
	case 5:
		p.CallData = []byte{}
		variant = "no-data"
	case 6, 7:
		// no transfer and no call, but shaped like everything the endpoint emits: a callback string is always there (the
		// zero address when the caller wants none)
		p.CallData = []byte{}
		p.CallbackAddress = []string{"0x0000000000000000000000000000000000000000", pkt.LowerHex(s.RandUser().Eth)}[pickV-6]
		variant = "no-data-but-a-callback-address"
	}
	bz, err := p.ABIPack()
	if err != nil {
		return
	}
	ev := core.PacketABI.Events[packettypes.PacketSendEvent]
	data, err := ev.Inputs.Pack(bz)
	if err != nil {
		return
	}
	receipt := &ethtypes.Receipt{Status: 1, Logs: []*ethtypes.Log{{Address: core.PacketAddr, Topics: []common.Hash{ev.ID}, Data: data}}}
	to := core.EndpointAddr
	msg := ethtypes.NewMessage(s.RandUser().Eth, &to, 0, big.NewInt(0), 1_000_000, big.NewInt(0), big.NewInt(0), big.NewInt(0), nil, nil, false)
	cctx, _ := src.Ctx().CacheContext()
	var herr error
	perr, panicked := core.Catch(func() error {
		herr = src.App.XIBCKeeper.PacketKeeper.Hooks().PostTxProcessing(cctx, msg, receipt)
		return nil
	})
	m.r.Eval(fmt.Sprintf("%s/%d/hook-probe/%s", m.cid, len(s.Log), variant), true)
	m.r.Count("hook_probes/"+variant, 1)
	switch {
	case panicked:
		m.r.Violation(m.cid, "hook/panic-on-PacketSent-log/"+variant, map[string]interface{}{"panic": perr.Error()})
	case herr == nil:
		m.r.Violation(m.cid, "hook/PacketSent-log-the-contract-would-not-emit-accepted/"+variant, map[string]interface{}{"packet": fmt.Sprintf("%s/%s/%d", p.SrcChain, p.DstChain, p.Sequence), "chain": src.Name, "next_sequence": good.Sequence})
	}
}

// nestedSend: a packet a->b whose call data makes the agent contract on b send the received tokens on to a third
// chain (a send that happens inside a module-driven EVM call while b processes MsgRecvPacket). With a known
// destination the nested send must be numbered and committed like any other; with an unknown destination it fails
// in the hook and must change nothing on b (no commitment, no counter change, no tokens locked).
func (m *mon) nestedSend() {
	s := m.s
	var tok *core.Token
	for _, t := range s.Tokens {
		if t.Addr != core.ZeroAddr {
			tok = t
			break
		}
	}
	if tok == nil {
		return
	}
	a := tok.Origin
	var others []*core.Node
	for _, n := range s.W.Nodes {
		if n != a {
			others = append(others, n)
		}
	}
	b, c := others[0], others[1]
	if s.Rng.Intn(2) == 0 {
		b, c = c, b
	}
	dstName := c.Name
	known := s.Rng.Intn(2) == 0
	if !known {
		dstName = "no-such-chain"
	}
	amount := int64(100 + s.Rng.Intn(1000))
	fee := int64(s.Rng.Intn(50))
	data, err := agentcontract.AgentContract.ABI.Pack("send", tok.AddrOn(b), pkt.LowerHex(s.RandUser().Eth), dstName, big.NewInt(fee))
	if err != nil {
		return
	}
	sp := pkt.SendSpec{Src: a, Dst: b, User: s.RandUser(), Token: tok, Amount: big.NewInt(amount + fee), Receiver: strings.ToLower(agentcontract.AgentContractAddress.Hex()),
		Call: pkt.CallSpec{Kind: "agent-nested-send", Contract: syscontracts.AgentContractAddress, Data: data}}
	o0, _ := m.sendRaw(sp)
	before := len(s.Pkts)
	m.observeSend(a, "outer-send-for-nested", o0, sp)
	if !o0.OK() || len(s.Pkts) != before+1 {
		return
	}
	p := s.Pkts[len(s.Pkts)-1]
	o, err := s.HonestRecv(p, s.RandRelayer())
	if err != nil || !o.OK() {
		m.r.Count("nested/recv-failed", 1)
		m.checkAll("nested recv failed")
		return
	}
	what := "nested-send/known-destination"
	if !known {
		what = "nested-send/unknown-destination"
	}
	m.r.Eval(fmt.Sprintf("%s/%d/%s", m.cid, len(s.Log), what), true)
	evs := core.SendPackets(o.Result.Events)
	var nested []*packettypes.EventSendPacket
	for _, e := range evs {
		if e.SrcChain == b.Name {
			nested = append(nested, e)
		}
	}
	m.r.Count(fmt.Sprintf("%s/ack-code-%d/nested-events-%d", what, p.AckCode, len(nested)), 1)
	if p.AckCode != 0 {
		// the receive (and with it the nested send) failed: nothing may be left on b besides receipt and ack
		var eff []core.DiffEntry
		eff = append(eff, o.DiffIn("evm")...)
		eff = append(eff, o.DiffIn("bank")...)
		for _, d := range o.DiffIn("xibc") {
			if !strings.HasPrefix(d.Key, "receipts/") && !strings.HasPrefix(d.Key, "acks/") {
				eff = append(eff, d)
			}
		}
		if len(eff) != 0 {
			m.r.Violation(m.cid, "failed-send-changed-state/"+what, map[string]interface{}{"effects": core.TrimDiff(eff, 10), "ack_code": p.AckCode, "log": tail(s.Log)})
		}
		if len(nested) != 0 {
			m.r.Violation(m.cid, "events/EventSendPacket-for-failed-nested-send", map[string]interface{}{"what": what})
		}
	} else {
		// the callback succeeded: then the nested send succeeded too and must be in the books
		if len(nested) != 1 {
			m.r.Violation(m.cid, fmt.Sprintf("nested-send/success-ack-with-%d-EventSendPacket", len(nested)), map[string]interface{}{"what": what, "known_destination": known, "log": tail(s.Log)})
		}
		for _, e := range nested {
			var q packettypes.Packet
			if err := q.ABIDecode(e.Packet); err != nil {
				continue
			}
			k := key(b, q.DstChain)
			m.dsts[q.DstChain] = true
			if q.Sequence != m.nextOf(k) {
				m.r.Violation(m.cid, "sequence/not-next", map[string]interface{}{"path": k, "got": q.Sequence, "want": m.nextOf(k), "what": what})
			}
			m.next[k] = m.nextOf(k) + 1
			if m.open[k] == nil {
				m.open[k] = map[uint64][]byte{}
			}
			m.open[k][q.Sequence] = e.Packet
			s.Register(&core.SentPacket{Bytes: e.Packet, Packet: q, Src: q.SrcChain, Dst: q.DstChain}, pkt.SendSpec{Src: b, Dst: c, User: s.W.Admin}, b)
			m.r.Count("packets_sent", 1)
		}
	}
	m.checkAll(what)
}

func tail(l []string) []string {
	if len(l) > 10 {
		return l[len(l)-10:]
	}
	return l
}

// faultedSend injects a failure into the chain->contract setSequence call.
func (m *mon) faultedSend() {
	sp := m.s.RandSendSpec([]string{""})
	pt := []string{"evm.before", "evm.afterCommit"}[m.s.Rng.Intn(2)]
	packetkeeper.VerifSetFault(pt, 1)
	o, _ := m.sendRaw(sp)
	hit := packetkeeper.VerifHits(pt)
	packetkeeper.VerifClearFaults()
	m.r.Count("faulted_sends/"+pt, 1)
	if hit > 0 && o.OK() {
		m.r.Violation(m.cid, "fault/send-succeeded-although-setSequence-failed/"+pt, map[string]interface{}{"spec": sp.Describe(), "log": m.s.Log})
	}
	m.observeSend(sp.Src, "faulted-setSequence/"+pt, o, sp)
}
