// Package c02 monitors C02: only what the counterparty committed is received or acked.
package c02

import (
	"bytes"
	"fmt"
	"math/rand"
	"strings"
	"testing"
	"time"

	ics23 "github.com/confio/ics23/go"

	clienttypes "github.com/teleport-network/teleport/x/xibc/core/client/types"
	commitmenttypes "github.com/teleport-network/teleport/x/xibc/core/commitment/types"
	"github.com/teleport-network/teleport/x/xibc/core/host"
	packettypes "github.com/teleport-network/teleport/x/xibc/core/packet/types"

	"verif/harness/core"
	"verif/harness/pkt"
)

type mon struct {
	old map[string]clienttypes.Height // aged histories: a height each client stored before the ageing
	r   *core.Run
	cid string
	s   *pkt.Sim
}

func TestC02(t *testing.T) {
	r := core.NewRun(t, "C02")
	r.Rule = "at random points of seeded 3-chain relay histories an honest MsgRecvPacket / MsgAcknowledgement is built and 1-3 typed mutators are applied (every packet field, every ack field, src/dst swap, seq±k, path confusion: proof of another packet / of the ack path / from another chain, proof bytes: bit flips, truncation, existence->non-existence, leaf/inner-op/key/value edits, proof taken at another height, proof height ±k/unknown/other revision), then delivered through DeliverTx. Ground truth = the source chain's own committed store at the claimed height plus the destination's stored consensus root. Non-trivial = distinct mutant that passed ValidateBasic and whose packet names this chain (so it reached proof verification)."
	defer r.Finish()
	H, L := r.N(5, 80), r.N(40, 90)
	for h := 0; h < H; h++ {
		cid := fmt.Sprintf("hist/%d", h)
		if !r.Want(cid) {
			continue
		}
		func() {
			defer func() {
				if rec := recover(); rec != nil {
					r.Violation(cid, "panic/monitor-or-code", map[string]interface{}{"panic": fmt.Sprint(rec)})
				}
			}()
			runHistory(r, cid, L)
		}()
	}
	r.MinNontrivial(r.N(300, 15000))
}

func runHistory(r *core.Run, cid string, L int) {
	rng := r.Rng(cid)
	s, err := pkt.NewSim(rng, pkt.Config{Chains: 3, Users: 2, Relayers: 2, Tokens: 2, Native: true})
	if err != nil {
		r.Inconclusive("%s: world construction failed: %v", cid, err)
		return
	}
	m := &mon{r: r, cid: cid, s: s}
	ageAt := -1
	if rng.Intn(3) == 0 || strings.HasSuffix(cid, "/0") {
		ageAt = L / 3
	}
	for i := 0; i < L; i++ {
		if i == ageAt {
			m.age()
		}
		x := rng.Intn(100)
		switch {
		case x < 30 || len(s.Pkts) < 3:
			sp := s.RandSendSpec([]string{"counter", "reverter", ""})
			s.Send(sp)
		case x < 65:
			m.attackRecv()
		case x < 92:
			m.attackAck()
		default:
			s.W.Roll(s.W.Nodes[rng.Intn(len(s.W.Nodes))])
		}
		if r.Violations() > 0 && !r.Replaying() {
			return
		}
	}
	r.Sample(map[string]interface{}{"history": cid, "ops": len(s.Log), "packets": len(s.Pkts)})
}

// --------------------------------------------------------------------- recv

// age lets more than the clients' trusting period (14 days) pass while every client is kept alive by a daily update - a
// long-lived connection. Consensus states stored before are now older than the trusting period but still in the store
// (an update prunes at most one); a message that names such a height must still be judged on its proof.
func (m *mon) age() {
	s := m.s
	old := map[string]clienttypes.Height{}
	// three fresh consensus states per client first, the last of which is remembered: pruning removes the oldest
	// expired state per update, so the remembered one outlives the few updates made after the period ran out
	for k := 0; k < 3; k++ {
		for _, on := range s.W.Nodes {
			for _, of := range s.W.Nodes {
				if on != of {
					s.W.Roll(of)
					if o, _, err := s.UpdateClient(on, of, s.RandRelayer(), 0); err != nil || !o.OK() {
						m.r.Count("aging_update_failed", 1)
						return
					}
					old[on.Name+"|"+of.Name] = s.W.ClientLatest(on, of)
				}
			}
		}
	}
	for day := 0; day < 15; day++ {
		s.W.Advance(24 * time.Hour)
		for _, n := range s.W.Nodes {
			s.W.Roll(n)
		}
		for _, on := range s.W.Nodes {
			for _, of := range s.W.Nodes {
				if on != of {
					if o, _, err := s.UpdateClient(on, of, s.RandRelayer(), 0); err != nil || !o.OK() {
						m.r.Count("aging_update_failed", 1)
						return
					}
				}
			}
		}
	}
	m.old = old
	m.r.Count("histories_aged_beyond_the_trusting_period", 1)
}

// oldHeight returns, in an aged history, a consensus height the client on `on` stored for `of` before the ageing.
func (m *mon) oldHeight(on, of *core.Node) (clienttypes.Height, bool) {
	if m.old == nil || on == nil || of == nil {
		return clienttypes.Height{}, false
	}
	h, ok := m.old[on.Name+"|"+of.Name]
	return h, ok && s2(m.s, on, of, h)
}

func s2(s *pkt.Sim, on, of *core.Node, h clienttypes.Height) bool {
	_, found := on.App.XIBCKeeper.ClientKeeper.GetClientConsensusState(on.Ctx(), of.Name, h)
	return found
}

func (m *mon) attackRecv() {
	s := m.s
	pr := s.PendingRecv()
	if len(pr) == 0 {
		return
	}
	p := pr[s.Rng.Intn(len(pr))]
	rel := s.RandRelayer()
	min := s.ProvableHeight(p.SrcN, p.SendBlock)
	ph, err := s.EnsureClient(p.DstN, p.SrcN, rel, min)
	if err != nil {
		m.r.Count("setup_failed", 1)
		return
	}
	honest, err := s.RecvMsg(p, ph, rel)
	if err != nil {
		return
	}
	n := 4 + s.Rng.Intn(8)
	for i := 0; i < n && !p.Received; i++ {
		mut := *honest
		desc := m.mutateRecv(&mut, p, rel)
		m.judgeRecv(p, &mut, honest, rel, desc)
	}
	if !p.Received {
		// finally the honest message: MUST_ACCEPT
		o := s.Deliver(p.DstN, rel, "honest recv "+p.Key(), honest)
		m.r.Eval(fmt.Sprintf("%s/%d/honest-recv/%s", m.cid, len(s.Log), p.Key()), true)
		m.r.Count("honest_recv", 1)
		if !o.OK() {
			m.r.Violation(m.cid, "recv/honest-message-rejected", map[string]interface{}{"packet": p.Key(), "log_tail": tail(s.Log), "err": o.Log})
		}
		s.NoteRecv(p, o)
	}
}

func (m *mon) judgeRecv(p *pkt.Pkt, mut, honest *packettypes.MsgRecvPacket, rel *core.Account, desc string) {
	s := m.s
	on := p.DstN
	identical := bytes.Equal(mut.Packet, honest.Packet) && bytes.Equal(mut.ProofCommitment, honest.ProofCommitment) && mut.ProofHeight == honest.ProofHeight
	reaches := mut.ValidateBasic() == nil && namesChain(mut.Packet, on.Name)
	claim, why := s.TrueRecvClaim(on, mut.Packet, mut.ProofHeight)
	o := s.Deliver(on, rel, "mutant recv ["+desc+"] "+p.Key(), mut)
	key := fmt.Sprintf("recv|%x|%x|%s", mut.Packet, mut.ProofCommitment, mut.ProofHeight)
	m.r.Eval(key, reaches)
	class := "claim-false"
	if claim {
		class = "claim-true"
	}
	m.r.Count("recv_mutants/"+class, 1)
	if o.OK() {
		m.r.Count("recv_mutants_accepted/"+class, 1)
		// model: whichever triple the mutant names is now received
		if q := tripleOf(s, mut.Packet); q != nil {
			s.NoteRecv(q, o)
		}
		if !claim {
			m.r.Violation(m.cid, "recv/accepted-although-source-did-not-commit/"+mutClass(desc), map[string]interface{}{"packet": p.Key(), "mutation": desc, "why_false": why, "log_tail": tail(s.Log)})
		}
		return
	}
	if len(o.Diff) != 0 {
		m.r.Violation(m.cid, "recv/rejected-but-state-changed/"+mutClass(desc), map[string]interface{}{"packet": p.Key(), "mutation": desc, "diff": core.TrimDiff(o.Diff, 8)})
	}
	if identical && claim {
		m.r.Violation(m.cid, "recv/unmutated-message-rejected", map[string]interface{}{"packet": p.Key(), "err": o.Log})
	}
}

func namesChain(packetBytes []byte, chain string) bool {
	var p packettypes.Packet
	if err := p.ABIDecode(packetBytes); err != nil {
		return false
	}
	return p.DstChain == chain || p.SrcChain == chain
}

func tripleOf(s *pkt.Sim, packetBytes []byte) *pkt.Pkt {
	var p packettypes.Packet
	if err := p.ABIDecode(packetBytes); err != nil {
		return nil
	}
	return s.ByKey[fmt.Sprintf("%s/%s/%d", p.SrcChain, p.DstChain, p.Sequence)]
}

func mutClass(desc string) string {
	for i, c := range desc {
		if c == ':' || c == '+' {
			return desc[:i]
		}
	}
	return desc
}

func tail(l []string) []string {
	if len(l) > 12 {
		return l[len(l)-12:]
	}
	return l
}

// mutateRecv applies 1-3 mutators and returns their description.
func (m *mon) mutateRecv(msg *packettypes.MsgRecvPacket, p *pkt.Pkt, rel *core.Account) string {
	s := m.s
	n := 1
	if s.Rng.Intn(3) == 0 {
		n = 2 + s.Rng.Intn(2)
	}
	desc := ""
	for i := 0; i < n; i++ {
		var d string
		switch s.Rng.Intn(4) {
		case 0, 1:
			msg.Packet, d = mutatePacket(s.Rng, s, msg.Packet)
		case 2:
			msg.ProofCommitment, d = m.mutateProof(msg.ProofCommitment, p, true, msg.ProofHeight)
		case 3:
			msg.ProofHeight, d = mutateHeight(s.Rng, msg.ProofHeight)
			if h, ok := m.oldHeight(p.DstN, p.SrcN); ok && s.Rng.Intn(2) == 0 {
				msg.ProofHeight, d = h, "height:stored-before-the-trusting-period-ran-out"
				m.r.Count("mutants_naming_a_height_older_than_the_trusting_period", 1)
			}
		}
		if desc != "" {
			desc += "+"
		}
		desc += d
	}
	return desc
}

func mutatePacket(rng *rand.Rand, s *pkt.Sim, bz []byte) ([]byte, string) {
	var p packettypes.Packet
	if err := p.ABIDecode(bz); err != nil {
		return bz, "packet:undecodable"
	}
	d := ""
	switch rng.Intn(12) {
	case 0:
		p.Sender = pkt.LowerHex(s.RandUser().Eth)
		if rng.Intn(2) == 0 {
			p.Sender += "00"
		}
		d = "packet:sender"
	case 1:
		if len(p.TransferData) > 0 {
			var td packettypes.TransferData
			if err := td.ABIDecode(p.TransferData); err == nil {
				switch rng.Intn(3) {
				case 0:
					td.Amount = append([]byte{}, td.Amount...)
					if len(td.Amount) > 0 {
						td.Amount[0] |= 0x40
					} else {
						td.Amount = []byte{1}
					}
				case 1:
					td.Receiver = pkt.LowerHex(s.RandUser().Eth)
					if td.Receiver == "" {
						td.Receiver = "x"
					}
					td.Receiver += "1"
				case 2:
					td.OriToken += "f"
				}
				p.TransferData, _ = td.ABIPack()
			} else {
				p.TransferData[len(p.TransferData)-1] ^= 1
			}
		} else {
			p.TransferData = []byte{1, 2, 3}
		}
		d = "packet:transfer-data"
	case 2:
		p.CallData = append(append([]byte{}, p.CallData...), byte(rng.Intn(256)))
		d = "packet:call-data"
	case 3:
		p.CallbackAddress = pkt.LowerHex(s.RandUser().Eth)
		d = "packet:callback"
	case 4:
		p.FeeOption += 1 + uint64(rng.Intn(3))
		d = "packet:fee-option"
	case 5:
		p.Sequence += 1 + uint64(rng.Intn(3))
		d = "packet:seq+"
	case 6:
		if p.Sequence > 1 {
			p.Sequence -= 1
		} else {
			p.Sequence += 5
		}
		d = "packet:seq-"
	case 7:
		p.SrcChain, p.DstChain = p.DstChain, p.SrcChain
		d = "packet:swap-src-dst"
	case 8:
		for _, n := range s.W.Nodes {
			if n.Name != p.SrcChain && n.Name != p.DstChain {
				p.SrcChain = n.Name
				break
			}
		}
		d = "packet:other-source"
	case 9:
		encs := pkt.Reencodings(bz)
		if len(encs) > 0 {
			return encs[rng.Intn(len(encs))], "packet:reencoded(claim stays true)"
		}
		d = "packet:none"
	case 10:
		// bytes of another real packet (path confusion: proof of p, bytes of q)
		if len(s.Pkts) > 1 {
			q := s.Pkts[rng.Intn(len(s.Pkts))]
			return q.Bytes, "packet:other-real-packet"
		}
		d = "packet:none"
	case 11:
		out := append([]byte{}, bz...)
		out[rng.Intn(len(out))] ^= byte(1 << uint(rng.Intn(8)))
		return out, "packet:bitflip"
	}
	out, err := p.ABIPack()
	if err != nil {
		return bz, d + "(unpackable)"
	}
	return out, d
}

func mutateHeight(rng *rand.Rand, h clienttypes.Height) (clienttypes.Height, string) {
	switch rng.Intn(6) {
	case 0:
		h.RevisionHeight += 1 + uint64(rng.Intn(3))
		return h, "height:+k"
	case 1:
		k := 1 + uint64(rng.Intn(3))
		if h.RevisionHeight > k {
			h.RevisionHeight -= k
		}
		return h, "height:-k"
	case 2:
		h.RevisionHeight += 1000000
		return h, "height:unknown-future"
	case 3:
		h.RevisionNumber += 1
		return h, "height:other-revision"
	case 4:
		h.RevisionHeight = 1
		return h, "height:1"
	default:
		h.RevisionNumber = 0
		return h, "height:revision-0"
	}
}

// mutateProof mutates proof bytes; recv selects commitment vs ack path semantics.
func (m *mon) mutateProof(proof []byte, p *pkt.Pkt, recv bool, ph clienttypes.Height) ([]byte, string) {
	s := m.s
	rng := s.Rng
	of := p.SrcN
	if !recv {
		of = p.DstN
	}
	h := int64(ph.RevisionHeight)
	switch rng.Intn(13) {
	case 0:
		if len(proof) == 0 {
			return proof, "proof:none"
		}
		out := append([]byte{}, proof...)
		out[rng.Intn(len(out))] ^= byte(1 << uint(rng.Intn(8)))
		return out, "proof:bitflip"
	case 1:
		if len(proof) < 4 {
			return proof, "proof:none"
		}
		return proof[:rng.Intn(len(proof))], "proof:truncated"
	case 2:
		return []byte{}, "proof:empty"
	case 3: // proof of another packet on the same path / another key
		for _, q := range s.Pkts {
			if q != p && q.SrcN == p.SrcN && q.DstN == p.DstN {
				key := host.PacketCommitmentKey(q.Src, q.Dst, q.Packet.Sequence)
				if !recv {
					key = host.PacketAcknowledgementKey(q.Src, q.Dst, q.Packet.Sequence)
				}
				if bz, _, err := s.W.Proof(of, key, h); err == nil {
					return bz, "proof:of-other-packet"
				}
			}
		}
		return proof, "proof:none"
	case 4: // path confusion: ack path <-> commitment path, receipts
		keys := [][]byte{
			host.PacketAcknowledgementKey(p.Src, p.Dst, p.Packet.Sequence),
			host.PacketCommitmentKey(p.Src, p.Dst, p.Packet.Sequence),
			host.PacketReceiptKey(p.Src, p.Dst, p.Packet.Sequence),
			host.PacketCommitmentKey(p.Dst, p.Src, p.Packet.Sequence),
			host.NextSequenceSendKey(p.Src, p.Dst),
		}
		k := keys[rng.Intn(len(keys))]
		if bz, _, err := s.W.Proof(of, k, h); err == nil {
			return bz, "proof:other-path(" + string(k[:4]) + ")"
		}
		return proof, "proof:none"
	case 5: // same key, proof from another chain's store
		for _, n := range s.W.Nodes {
			if n != of && n.Height() >= h-1 && h > 1 {
				key := host.PacketCommitmentKey(p.Src, p.Dst, p.Packet.Sequence)
				if !recv {
					key = host.PacketAcknowledgementKey(p.Src, p.Dst, p.Packet.Sequence)
				}
				if bz, _, err := s.W.Proof(n, key, h); err == nil {
					return bz, "proof:from-other-chain"
				}
			}
		}
		return proof, "proof:none"
	case 6: // same key, proof taken at another height of the right chain (message height unchanged)
		for _, dh := range []int64{-1, 1, -2, 2} {
			hh := h + dh
			if hh > 1 && hh-1 <= of.Height() {
				key := host.PacketCommitmentKey(p.Src, p.Dst, p.Packet.Sequence)
				if !recv {
					key = host.PacketAcknowledgementKey(p.Src, p.Dst, p.Packet.Sequence)
				}
				if bz, _, err := s.W.Proof(of, key, hh); err == nil {
					return bz, "proof:taken-at-other-height"
				}
			}
		}
		return proof, "proof:none"
	default: // structural edits of the ICS-23 proof
		var mp commitmenttypes.MerkleProof
		if err := p.SrcN.App.AppCodec().Unmarshal(proof, &mp); err != nil || len(mp.Proofs) == 0 {
			return proof, "proof:none"
		}
		i := rng.Intn(len(mp.Proofs))
		ex := mp.Proofs[i].GetExist()
		d := "proof:none"
		if ex != nil {
			switch rng.Intn(7) {
			case 0:
				ex.Value = append([]byte{}, ex.Value...)
				if len(ex.Value) > 0 {
					ex.Value[rng.Intn(len(ex.Value))] ^= 0x10
				}
				d = "proof:exist-value"
			case 1:
				ex.Key = append(append([]byte{}, ex.Key...), 'x')
				d = "proof:exist-key"
			case 2:
				if len(ex.Path) > 0 {
					j := rng.Intn(len(ex.Path))
					ex.Path[j].Prefix = append(append([]byte{}, ex.Path[j].Prefix...), 0)
					d = "proof:inner-prefix"
				}
			case 3:
				if len(ex.Path) > 1 {
					ex.Path = ex.Path[:len(ex.Path)-1]
					d = "proof:drop-inner-op"
				}
			case 4:
				if ex.Leaf != nil {
					ex.Leaf.Prefix = append(append([]byte{}, ex.Leaf.Prefix...), 1)
					d = "proof:leaf-prefix"
				}
			case 5:
				mp.Proofs[i] = &ics23.CommitmentProof{Proof: &ics23.CommitmentProof_Nonexist{Nonexist: &ics23.NonExistenceProof{Key: ex.Key, Left: ex}}}
				d = "proof:existence->nonexistence"
			case 6:
				if len(mp.Proofs) > 1 {
					mp.Proofs[0], mp.Proofs[1] = mp.Proofs[1], mp.Proofs[0]
					d = "proof:swap-levels"
				}
			}
		} else if len(mp.Proofs) > 1 {
			mp.Proofs = mp.Proofs[1:]
			d = "proof:drop-level"
		}
		out, err := p.SrcN.App.AppCodec().Marshal(&mp)
		if err != nil {
			return proof, "proof:none"
		}
		return out, d
	}
}

// ---------------------------------------------------------------------- ack

func (m *mon) attackAck() {
	s := m.s
	// pick any packet: pending-ack ones have a real ack, others exercise premature/foreign acks
	var cands []*pkt.Pkt
	for _, p := range s.Pkts {
		if p.DstN != nil && (!p.Acked || s.Rng.Intn(3) == 0) {
			cands = append(cands, p)
		}
	}
	if len(cands) == 0 {
		return
	}
	p := cands[s.Rng.Intn(len(cands))]
	rel := s.RandRelayer()
	if !p.Received {
		// receive it honestly first half of the time so that acks become meaningful
		if s.Rng.Intn(2) == 0 {
			if _, err := s.HonestRecv(p, rel); err != nil || !p.Received {
				return
			}
		}
	}
	base := p.RecvBlock
	if !p.Received {
		base = p.DstN.Header.Height - 1
	}
	min := s.ProvableHeight(p.DstN, base)
	ph, err := s.EnsureClient(p.SrcN, p.DstN, rel, min)
	if err != nil {
		m.r.Count("setup_failed", 1)
		return
	}
	ack := p.AckWritten
	if ack == nil {
		a := packettypes.NewAcknowledgement(0, []byte{}, "", rel.Bech32(), p.Packet.FeeOption)
		ack, _ = a.ABIPack()
	}
	honest, err := s.AckMsg(p, ack, ph, rel)
	if err != nil {
		return
	}
	if p.Acked {
		// the commitment is gone: the very same (once valid) acknowledgement, and variations of it, must be refused now
		again := *honest
		m.judgeAck(p, &again, honest, rel, "replay:after-commitment-removed")
		for i := 0; i < 3; i++ {
			mut := *honest
			desc := m.mutateAck(&mut, p)
			m.judgeAck(p, &mut, honest, rel, "replay+"+desc)
		}
		return
	}
	n := 4 + s.Rng.Intn(8)
	for i := 0; i < n && !p.Acked; i++ {
		mut := *honest
		desc := m.mutateAck(&mut, p)
		m.judgeAck(p, &mut, honest, rel, desc)
	}
	if p.Received && p.AckWritten != nil && !p.Acked {
		claim, _ := s.TrueAckClaim(p.SrcN, honest.Packet, honest.Acknowledgement, honest.ProofHeight)
		o := s.Deliver(p.SrcN, rel, "honest ack "+p.Key(), honest)
		m.r.Eval(fmt.Sprintf("%s/%d/honest-ack/%s", m.cid, len(s.Log), p.Key()), true)
		m.r.Count("honest_ack", 1)
		s.NoteAck(p, o)
		if !o.OK() {
			// an honest, proven ack may still be refused by the sender-side contract callback
			// (e.g. error acks of call-only packets revert in the packet contract): not judged here
			m.r.Count("honest_ack_refused_after_verification", 1)
			if !claim {
				m.r.Count("honest_ack_claim_false", 1)
			}
			if len(o.Diff) != 0 {
				m.r.Violation(m.cid, "ack/rejected-but-state-changed/honest", map[string]interface{}{"packet": p.Key(), "diff": core.TrimDiff(o.Diff, 8)})
			}
		}
	}
}

func (m *mon) judgeAck(p *pkt.Pkt, mut, honest *packettypes.MsgAcknowledgement, rel *core.Account, desc string) {
	s := m.s
	on := p.SrcN
	reaches := mut.ValidateBasic() == nil && namesChain(mut.Packet, on.Name)
	claim, why := s.TrueAckClaim(on, mut.Packet, mut.Acknowledgement, mut.ProofHeight)
	o := s.Deliver(on, rel, "mutant ack ["+desc+"] "+p.Key(), mut)
	key := fmt.Sprintf("ack|%x|%x|%x|%s", mut.Packet, mut.Acknowledgement, mut.ProofAcked, mut.ProofHeight)
	m.r.Eval(key, reaches)
	class := "claim-false"
	if claim {
		class = "claim-true"
	}
	m.r.Count("ack_mutants/"+class, 1)
	if o.OK() {
		m.r.Count("ack_mutants_accepted/"+class, 1)
		if q := tripleOf(s, mut.Packet); q != nil {
			s.NoteAck(q, o)
		}
		if !claim {
			m.r.Violation(m.cid, "ack/accepted-although-not-committed-by-counterparty/"+mutClass(desc), map[string]interface{}{"packet": p.Key(), "mutation": desc, "why_false": why, "log_tail": tail(s.Log)})
		}
		return
	}
	if len(o.Diff) != 0 {
		m.r.Violation(m.cid, "ack/rejected-but-state-changed/"+mutClass(desc), map[string]interface{}{"packet": p.Key(), "mutation": desc, "diff": core.TrimDiff(o.Diff, 8)})
	}
}

func (m *mon) mutateAck(msg *packettypes.MsgAcknowledgement, p *pkt.Pkt) string {
	s := m.s
	n := 1
	if s.Rng.Intn(3) == 0 {
		n = 2 + s.Rng.Intn(2)
	}
	desc := ""
	for i := 0; i < n; i++ {
		var d string
		switch s.Rng.Intn(5) {
		case 0:
			msg.Packet, d = mutatePacket(s.Rng, s, msg.Packet)
		case 1, 2:
			msg.Acknowledgement, d = mutateAckBytes(s.Rng, s, msg.Acknowledgement)
		case 3:
			msg.ProofAcked, d = m.mutateProof(msg.ProofAcked, p, false, msg.ProofHeight)
		case 4:
			msg.ProofHeight, d = mutateHeight(s.Rng, msg.ProofHeight)
			if h, ok := m.oldHeight(p.SrcN, p.DstN); ok && s.Rng.Intn(2) == 0 {
				msg.ProofHeight, d = h, "height:stored-before-the-trusting-period-ran-out"
				m.r.Count("mutants_naming_a_height_older_than_the_trusting_period", 1)
			}
		}
		if desc != "" {
			desc += "+"
		}
		desc += d
	}
	return desc
}

func mutateAckBytes(rng *rand.Rand, s *pkt.Sim, bz []byte) ([]byte, string) {
	var a packettypes.Acknowledgement
	if err := a.ABIDecode(bz); err != nil {
		return bz, "ackbytes:undecodable"
	}
	d := ""
	switch rng.Intn(7) {
	case 0:
		if a.Code == 0 {
			a.Code = 1 + uint64(rng.Intn(3))
		} else {
			a.Code = 0
		}
		d = "ackbytes:code"
	case 1:
		a.Result = append(append([]byte{}, a.Result...), 1)
		d = "ackbytes:result"
	case 2:
		a.Message += "x"
		d = "ackbytes:message"
	case 3:
		a.Relayer = s.RandRelayer().Bech32() + "q"
		d = "ackbytes:relayer"
	case 4:
		a.FeeOption++
		d = "ackbytes:fee-option"
	case 5:
		out := append([]byte{}, bz...)
		out[rng.Intn(len(out))] ^= byte(1 << uint(rng.Intn(8)))
		return out, "ackbytes:bitflip"
	case 6:
		// the written ack of another packet
		for _, q := range s.Pkts {
			if q.AckWritten != nil && !bytes.Equal(q.AckWritten, bz) {
				return q.AckWritten, "ackbytes:other-packets-ack"
			}
		}
		d = "ackbytes:none"
	}
	out, err := a.ABIPack()
	if err != nil {
		return bz, d
	}
	return out, d
}
