package c20

import (
	"encoding/hex"
	"fmt"
	"math/big"
	"sort"
	"strings"

	sdk "github.com/cosmos/cosmos-sdk/types"

	"verif/harness/core"
)

// amap is a denomination -> amount table without zero entries.
type amap map[string]sdk.Int

func (m amap) get(d string) sdk.Int {
	if v, ok := m[d]; ok {
		return v
	}
	return sdk.ZeroInt()
}

func (m amap) add(d string, x sdk.Int) {
	v := m.get(d).Add(x)
	if v.IsZero() {
		delete(m, d)
	} else {
		m[d] = v
	}
}

func (m amap) sub(d string, x sdk.Int) { m.add(d, x.Neg()) }

func (m amap) clone() amap {
	out := amap{}
	for k, v := range m {
		out[k] = v
	}
	return out
}

func (m amap) denoms() []string {
	ds := make([]string, 0, len(m))
	for d := range m {
		ds = append(ds, d)
	}
	sort.Strings(ds)
	return ds
}

func (m amap) String() string {
	var sb strings.Builder
	for i, d := range m.denoms() {
		if i > 0 {
			sb.WriteByte(',')
		}
		fmt.Fprintf(&sb, "%s%q", m[d].String(), d)
	}
	if sb.Len() == 0 {
		return "(none)"
	}
	return sb.String()
}

func (m amap) equal(o amap) bool {
	if len(m) != len(o) {
		return false
	}
	for d, v := range m {
		if !o.get(d).Equal(v) {
			return false
		}
	}
	return true
}

// coins converts to a valid sdk.Coins (all entries must be positive, valid denominations).
func (m amap) coins() sdk.Coins {
	var cs sdk.Coins
	for _, d := range m.denoms() {
		cs = append(cs, sdk.Coin{Denom: d, Amount: m[d]})
	}
	return cs
}

func unionDenoms(ms ...amap) []string {
	set := map[string]struct{}{}
	for _, m := range ms {
		for d := range m {
			set[d] = struct{}{}
		}
	}
	ds := make([]string, 0, len(set))
	for d := range set {
		ds = append(ds, d)
	}
	sort.Strings(ds)
	return ds
}

// bstate is the bank store decoded by the monitor itself from a raw dump
// (cosmos-sdk v0.45 layout: 0x02|len(addr)|addr|denom -> proto Coin,
// 0x00|denom -> Int text, 0x01|denom -> metadata).
type bstate struct {
	Raw core.KV
	Bal map[string]amap // key: string(address bytes)
	Sup amap
}

func decodeBank(kv core.KV) (*bstate, error) {
	s := &bstate{Raw: kv, Bal: map[string]amap{}, Sup: amap{}}
	for k, v := range kv {
		kb := []byte(k)
		if len(kb) == 0 {
			return nil, fmt.Errorf("empty bank key")
		}
		switch kb[0] {
		case 0x02:
			if len(kb) < 2 || len(kb) < 2+int(kb[1]) {
				return nil, fmt.Errorf("short balance key %x", kb)
			}
			al := int(kb[1])
			addr := string(kb[2 : 2+al])
			denom := string(kb[2+al:])
			var c sdk.Coin
			if err := c.Unmarshal(v); err != nil {
				return nil, fmt.Errorf("balance value of %x: %v", kb, err)
			}
			if c.Denom != denom {
				return nil, fmt.Errorf("balance key %x holds coin of denomination %q", kb, c.Denom)
			}
			if s.Bal[addr] == nil {
				s.Bal[addr] = amap{}
			}
			s.Bal[addr][denom] = c.Amount // kept even if zero/negative: judged by the caller
		case 0x00:
			var i sdk.Int
			if err := i.Unmarshal(v); err != nil {
				return nil, fmt.Errorf("supply value of %x: %v", kb, err)
			}
			s.Sup[string(kb[1:])] = i
		}
	}
	return s, nil
}

func (s *bstate) of(addr sdk.AccAddress) amap {
	if m, ok := s.Bal[string(addr)]; ok {
		return m
	}
	return amap{}
}

// changedKey describes one raw bank key that differs between two dumps.
type changedKey struct {
	Kind  string // "balance", "supply", "other"
	Addr  string // address bytes for balances
	Denom string
	Key   string
}

func changedKeys(a, b core.KV) []changedKey {
	var out []changedKey
	for _, de := range core.Diff("bank", a, b) {
		var kb []byte
		if strings.HasPrefix(de.Key, "0x") {
			kb, _ = hex.DecodeString(de.Key[2:])
		} else {
			kb = []byte(de.Key)
		}
		ck := changedKey{Kind: "other", Key: de.Key}
		if len(kb) > 0 {
			switch kb[0] {
			case 0x02:
				if len(kb) >= 2 && len(kb) >= 2+int(kb[1]) {
					ck.Kind = "balance"
					ck.Addr = string(kb[2 : 2+int(kb[1])])
					ck.Denom = string(kb[2+int(kb[1]):])
				}
			case 0x00:
				ck.Kind = "supply"
				ck.Denom = string(kb[1:])
			}
		}
		out = append(out, ck)
	}
	return out
}

func minBig(a, b *big.Int) *big.Int {
	if a.Cmp(b) <= 0 {
		return a
	}
	return b
}
