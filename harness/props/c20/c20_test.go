// Package c20 monitors C20: reward vesting releases min(reward, remaining) of
// every reward denomination from the rvesting pool to the fee collector and
// nothing else, conserves supply, and is inert when disabled or empty.
package c20

import (
	"encoding/json"
	"fmt"
	"math/big"
	"strings"
	"testing"
	"time"

	"github.com/cosmos/cosmos-sdk/simapp"
	sdk "github.com/cosmos/cosmos-sdk/types"
	authtypes "github.com/cosmos/cosmos-sdk/x/auth/types"
	banktypes "github.com/cosmos/cosmos-sdk/x/bank/types"
	distrtypes "github.com/cosmos/cosmos-sdk/x/distribution/types"
	tmproto "github.com/tendermint/tendermint/proto/tendermint/types"
	evmtypes "github.com/tharsis/ethermint/x/evm/types"

	"github.com/teleport-network/teleport/app"
	rvesting "github.com/teleport-network/teleport/x/rvesting/module"
	rvestingtypes "github.com/teleport-network/teleport/x/rvesting/types"

	"verif/harness/core"
)

const (
	chainID      = "teleport_9000-1"
	minterModule = evmtypes.ModuleName // has Minter+Burner permission; used only by the harness to fund / reset the pool
)

var (
	poolAddr  = authtypes.NewModuleAddress(rvestingtypes.ModuleName)
	fcAddr    = authtypes.NewModuleAddress(authtypes.FeeCollectorName)
	distrAddr = authtypes.NewModuleAddress(distrtypes.ModuleName)
	userFund  = sdk.NewIntWithDecimal(1, 24)
	genesisT  = time.Date(2022, 1, 2, 0, 0, 0, 0, time.UTC)
)

func addrName(a string) string {
	switch a {
	case string(poolAddr):
		return "rvesting-pool"
	case string(fcAddr):
		return "fee_collector"
	case string(distrAddr):
		return "distribution"
	}
	return sdk.AccAddress([]byte(a)).String()
}

// ------------------------------------------------------------------ node

func users() []*core.Account {
	var out []*core.Account
	for i := 0; i < nUsers; i++ {
		out = append(out, core.NewAccount(fmt.Sprintf("c20-user-%d", i)))
	}
	return out
}

// newNode builds a chain whose users hold every holdable denomination. When
// rg is non-nil it becomes the rvesting genesis and fromExtra is added to the
// balance of the From account (users[1]) so that InitGenesis can fund the pool.
func newNode(rg *rvestingtypes.GenesisState, fromExtra sdk.Coins, bankPool ...sdk.Coin) (n *core.Node, err error) {
	us := users()
	mut := func(tp *app.Teleport, gs simapp.GenesisState) {
		var bg banktypes.GenesisState
		tp.AppCodec().MustUnmarshalJSON(gs[banktypes.ModuleName], &bg)
		extra := sdk.Coins{}
		for _, d := range holdable {
			if d == core.BondDenom {
				continue
			}
			extra = extra.Add(sdk.NewCoin(d, userFund))
		}
		for i := range bg.Balances {
			for ui, u := range us {
				if bg.Balances[i].Address == u.Acc.String() {
					bg.Balances[i].Coins = bg.Balances[i].Coins.Add(extra...)
					bg.Supply = bg.Supply.Add(extra...)
					if ui == 1 && !fromExtra.IsZero() {
						bg.Balances[i].Coins = bg.Balances[i].Coins.Add(fromExtra...)
						bg.Supply = bg.Supply.Add(fromExtra...)
					}
				}
			}
		}
		if len(bankPool) > 0 {
			// the pool's balance comes from the bank genesis alone: no account record exists for the module address
			bg.Balances = append(bg.Balances, banktypes.Balance{Address: poolAddr.String(), Coins: sdk.NewCoins(bankPool...)})
			bg.Supply = bg.Supply.Add(bankPool...)
			bg.Balances = banktypes.SanitizeGenesisBalances(bg.Balances)
		}
		gs[banktypes.ModuleName] = tp.AppCodec().MustMarshalJSON(&bg)
		if rg != nil {
			gs[rvestingtypes.ModuleName] = tp.AppCodec().MustMarshalJSON(rg)
		}
	}
	e, _ := core.Catch(func() error {
		n = core.NewNode(core.NodeConfig{ChainID: chainID, XIBCName: "native-chain", Accounts: us, GenesisTime: genesisT, MutateGenesis: mut})
		return nil
	})
	return n, e
}

// preCtx is the state the next BeginBlock will start from.
func preCtx(n *core.Node) sdk.Context {
	if n.InBlock {
		panic("preCtx inside a block")
	}
	if n.Height() == 0 {
		// before the first commit the genesis state lives only in the deliver state
		return n.App.BaseApp.NewContext(false, tmproto.Header{ChainID: n.ChainID})
	}
	return n.Ctx()
}

func nextTime(n *core.Node) time.Time {
	return genesisT.Add(time.Duration(n.Height()+1) * 5 * time.Second)
}

func bankOf(n *core.Node, ctx sdk.Context) (*bstate, error) {
	return decodeBank(n.DumpStore(ctx, banktypes.StoreKey))
}

// ------------------------------------------------------------------ model

type model struct {
	P    paramSet
	Pool amap
}

// expectedMove is the reference schedule written from the property text:
// nothing when disabled, else min(per-block reward_d, remaining_d) per reward denomination d.
func expectedMove(p paramSet, pool amap) amap {
	mv := amap{}
	if !p.Enabled {
		return mv
	}
	for d, s := range rewardSums(p) {
		m := minBig(s, pool.get(d).BigInt())
		if m.Sign() > 0 {
			mv[d] = sdk.NewIntFromBigInt(new(big.Int).Set(m))
		}
	}
	return mv
}

type finding struct {
	Key    string
	Detail map[string]interface{}
}

// judgeDirect compares the bank store before/after one direct BeginBlocker call.
func judgeDirect(before, after *bstate, p paramSet, pool, move amap) []finding {
	var out []finding
	add := func(key string, kv ...interface{}) {
		d := map[string]interface{}{}
		for i := 0; i+1 < len(kv); i += 2 {
			d[kv[i].(string)] = kv[i+1]
		}
		out = append(out, finding{key, d})
	}
	for _, ck := range changedKeys(before.Raw, after.Raw) {
		switch {
		case ck.Kind == "supply":
			add("supply/changed", "denom", ck.Denom, "before", before.Sup.get(ck.Denom).String(), "after", after.Sup.get(ck.Denom).String())
		case ck.Kind == "balance" && (ck.Addr == string(poolAddr) || ck.Addr == string(fcAddr)):
		case ck.Kind == "balance":
			add("release/other-account-changed", "account", addrName(ck.Addr), "denom", ck.Denom,
				"before", before.Bal[ck.Addr].get(ck.Denom).String(), "after", after.Bal[ck.Addr].get(ck.Denom).String())
		default:
			add("release/other-bank-key-changed", "key", ck.Key)
		}
	}
	pb, pa := before.of(poolAddr), after.of(poolAddr)
	fb, fa := before.of(fcAddr), after.of(fcAddr)
	for _, d := range unionDenoms(pb, pa, fb, fa, move) {
		if pa.get(d).IsNegative() {
			add("pool/negative", "denom", d, "after", pa.get(d).String())
		}
		want := move.get(d)
		poolDelta := pb.get(d).Sub(pa.get(d))
		fcDelta := fa.get(d).Sub(fb.get(d))
		if !poolDelta.Equal(want) {
			key := "release/less-than-min"
			switch {
			case !p.Enabled:
				key = "disabled/moved"
			case pool.get(d).IsZero():
				key = "empty/moved"
			case poolDelta.GT(want):
				key = "release/more-than-min"
			}
			add(key, "denom", d, "pool_before", pb.get(d).String(), "pool_after", pa.get(d).String(), "expected_release", want.String(), "observed_release", poolDelta.String())
		} else if !fcDelta.Equal(want) {
			add("release/collector-credit-mismatch", "denom", d, "expected_credit", want.String(), "observed_credit", fcDelta.String())
		}
	}
	return out
}

// judgeBegin compares the bank store before/after the whole ABCI BeginBlock
// (rvesting, then distribution sweeping the fee collector into its own account).
func judgeBegin(before, after *bstate, move amap) []finding {
	var out []finding
	add := func(key string, kv ...interface{}) {
		d := map[string]interface{}{}
		for i := 0; i+1 < len(kv); i += 2 {
			d[kv[i].(string)] = kv[i+1]
		}
		out = append(out, finding{key, d})
	}
	for _, ck := range changedKeys(before.Raw, after.Raw) {
		switch {
		case ck.Kind == "supply":
			add("e2e/supply-changed", "denom", ck.Denom, "before", before.Sup.get(ck.Denom).String(), "after", after.Sup.get(ck.Denom).String())
		case ck.Kind == "balance" && (ck.Addr == string(poolAddr) || ck.Addr == string(fcAddr) || ck.Addr == string(distrAddr)):
		case ck.Kind == "balance":
			add("e2e/other-account-changed", "account", addrName(ck.Addr), "denom", ck.Denom)
		default:
			add("e2e/other-bank-key-changed", "key", ck.Key)
		}
	}
	pb, pa := before.of(poolAddr), after.of(poolAddr)
	cb, ca := before.of(fcAddr).clone(), after.of(fcAddr).clone()
	for d, v := range before.of(distrAddr) {
		cb.add(d, v)
	}
	for d, v := range after.of(distrAddr) {
		ca.add(d, v)
	}
	for _, d := range unionDenoms(pb, pa, cb, ca, move) {
		want := move.get(d)
		if pa.get(d).IsNegative() {
			add("pool/negative", "denom", d, "after", pa.get(d).String())
		}
		if got := pb.get(d).Sub(pa.get(d)); !got.Equal(want) {
			add("e2e/pool-delta-mismatch", "denom", d, "expected_release", want.String(), "observed_release", got.String())
		} else if got := ca.get(d).Sub(cb.get(d)); !got.Equal(want) {
			add("e2e/collector-credit-mismatch", "denom", d, "expected_credit", want.String(), "observed_credit", got.String())
		}
	}
	return out
}

// ------------------------------------------------------------------ harness actions

// setParams applies a parameter value the way a passed param-change proposal
// would (cache context, written only when the real validators accept).
func setParams(n *core.Node, ctx sdk.Context, p paramSet, route string, onlyEnable bool) (accepted bool, why string) {
	cctx, write := ctx.CacheContext()
	err, _ := core.Catch(func() error {
		if route == "setparams" {
			n.App.RVestingKeeper.SetParams(cctx, rvestingtypes.Params{EnableVesting: p.Enabled, PerBlockReward: p.coins()})
			return nil
		}
		ss, ok := n.App.ParamsKeeper.GetSubspace(rvestingtypes.ModuleName)
		if !ok {
			return fmt.Errorf("no rvesting subspace")
		}
		if !onlyEnable {
			type jc struct {
				Denom  string `json:"denom"`
				Amount string `json:"amount"`
			}
			js := []jc{}
			for _, e := range p.Reward {
				js = append(js, jc{e.Denom, e.Amt.String()})
			}
			bz, _ := json.Marshal(js)
			if err := ss.Update(cctx, rvestingtypes.KeyPerBlockReward, bz); err != nil {
				return err
			}
		}
		bz, _ := json.Marshal(p.Enabled)
		return ss.Update(cctx, rvestingtypes.KeyEnableVesting, bz)
	})
	if err != nil {
		return false, err.Error()
	}
	write()
	return true, ""
}

func storedParamsMatch(n *core.Node, ctx sdk.Context, p paramSet) bool {
	got := n.App.RVestingKeeper.GetParams(ctx)
	if got.EnableVesting != p.Enabled || len(got.PerBlockReward) != len(p.Reward) {
		return false
	}
	for i, c := range got.PerBlockReward {
		if c.Denom != p.Reward[i].Denom || !c.Amount.Equal(p.Reward[i].Amt) {
			return false
		}
	}
	return true
}

func rcCoins(cs []rc) sdk.Coins {
	m := amap{}
	for _, c := range cs {
		if c.Amt.IsPositive() {
			m.add(c.Denom, c.Amt)
		}
	}
	return m.coins()
}

// fundPool mints through the minter module and moves the coins into the pool.
func fundPool(n *core.Node, ctx sdk.Context, cs sdk.Coins) error {
	if cs.IsZero() {
		return nil
	}
	err, _ := core.Catch(func() error {
		if err := n.App.BankKeeper.MintCoins(ctx, minterModule, cs); err != nil {
			return err
		}
		return n.App.BankKeeper.SendCoinsFromModuleToModule(ctx, minterModule, rvestingtypes.ModuleName, cs)
	})
	return err
}

// emptyPool burns whatever is left in the pool (between histories on a re-used node).
func emptyPool(n *core.Node, ctx sdk.Context) error {
	cs := n.App.BankKeeper.GetAllBalances(ctx, poolAddr)
	if cs.IsZero() {
		return nil
	}
	err, _ := core.Catch(func() error {
		if err := n.App.BankKeeper.SendCoinsFromModuleToModule(ctx, rvestingtypes.ModuleName, minterModule, cs); err != nil {
			return err
		}
		return n.App.BankKeeper.BurnCoins(ctx, minterModule, cs)
	})
	return err
}

var disabledDefault = paramSet{Enabled: false, Reward: []rc{{"atele", sdk.NewIntWithDecimal(1, 17)}}, Shape: "default"}

// ------------------------------------------------------------------ one history

type seqResult struct {
	halted     bool // a BeginBlocker panic ended the chain
	nontrivial bool
	trace      []string
}

type runner struct {
	r      *core.Run
	shared *core.Node
}

func (x *runner) violation(caseID string, pl *plan, blk int, m *model, f finding, extra map[string]interface{}) {
	d := map[string]interface{}{"block": blk, "params": m.P.String(), "params_shape": m.P.Shape, "model_pool_before": m.Pool.String(), "expected_release": expectedMove(m.P, m.Pool).String()}
	for k, v := range f.Detail {
		d[k] = v
	}
	for k, v := range extra {
		d[k] = v
	}
	x.r.Violation(caseID, f.Key, d)
}

func (x *runner) runSeq(caseID string, pl *plan) (res seqResult) {
	r := x.r
	var n *core.Node
	m := &model{P: disabledDefault, Pool: amap{}}
	poolCoins := rcCoins(pl.Pool)

	if pl.ViaGenesis {
		// parameters and pool come from genesis (validated by the real ValidateGenesis first)
		rg := &rvestingtypes.GenesisState{Params: rvestingtypes.Params{EnableVesting: pl.Init.Enabled, PerBlockReward: pl.Init.coins()}, InitReward: sdk.Coins{}}
		fromExtra := sdk.Coins{}
		if pl.GenesisFrom {
			rg.From = users()[1].Acc.String()
			rg.InitReward = poolCoins
			fromExtra = poolCoins
		}
		if err := rvestingtypes.ValidateGenesis(rg); err != nil {
			r.Count("genesis_rejected_by_validation", 1)
			return
		}
		var err error
		var bankPool sdk.Coins
		if pl.GenesisBank && !pl.GenesisFrom {
			bankPool = poolCoins
		}
		n, err = newNode(rg, fromExtra, bankPool...)
		if err != nil {
			// InitGenesis re-validates through SetParamSet; a refusal there means the value is outside the domain
			r.Count("genesis_initchain_refused", 1)
			r.Set("last_initchain_refusal", fmt.Sprintf("%s: %v", pl.Init.String(), err))
			return
		}
		r.Count("nodes_built", 1)
		r.Count("histories_from_genesis", 1)
		m.P = pl.Init
		if pl.GenesisFrom || pl.GenesisBank {
			for _, c := range poolCoins {
				m.Pool.add(c.Denom, c.Amount)
			}
			if pl.GenesisBank && !pl.GenesisFrom && !poolCoins.IsZero() {
				r.Count("histories_with_pool_from_bank_genesis_only", 1)
			}
		}
		if !storedParamsMatch(n, preCtx(n), m.P) {
			r.Inconclusive("%s: genesis parameters were not stored as given", caseID)
			return
		}
	} else {
		if x.shared == nil {
			var err error
			x.shared, err = newNode(nil, nil)
			if err != nil {
				r.Inconclusive("cannot build node: %v", err)
				return
			}
			r.Count("nodes_built", 1)
		}
		n = x.shared
		// set-up block: vesting is disabled here (left so by the previous history)
		if err, p := core.Catch(func() error { n.Begin(nextTime(n)); return nil }); p {
			r.Inconclusive("%s: set-up block could not begin: %v", caseID, err)
			x.shared = nil
			return
		}
		ctx := n.Ctx()
		if err := emptyPool(n, ctx); err != nil {
			r.Inconclusive("%s: cannot reset pool: %v", caseID, err)
		}
		if err := fundPool(n, ctx, poolCoins); err != nil {
			r.Inconclusive("%s: cannot fund pool: %v", caseID, err)
		}
		for _, c := range poolCoins {
			m.Pool.add(c.Denom, c.Amount)
		}
		if ok, why := setParams(n, ctx, pl.Init, pl.InitRoute, false); ok {
			m.P = pl.Init
			r.Count("params_accepted/"+pl.Init.Shape, 1)
			if !storedParamsMatch(n, ctx, m.P) {
				r.Inconclusive("%s: parameters were not stored as given", caseID)
			}
		} else {
			r.Count("params_rejected_by_validation/"+pl.Init.Shape, 1)
			r.Set("last_params_rejection", fmt.Sprintf("%s: %s", pl.Init.String(), why))
		}
		if err, p := core.Catch(func() error { n.End(); return nil }); p {
			r.Inconclusive("%s: set-up block could not end: %v", caseID, err)
			x.shared = nil
			return
		}
	}
	if !pl.ViaGenesis {
		defer func() {
			if res.halted {
				x.shared = nil
			}
		}()
	}

	bankSwitched := false // the bank module's transfer switch was moved away from its default in this history
	for bi, ops := range pl.Blocks {
		pre := preCtx(n)
		before, err := bankOf(n, pre)
		if err != nil {
			r.Inconclusive("%s: bank dump: %v", caseID, err)
			return
		}
		// lock-step: the model's pool must be what the store holds
		if obs := before.of(poolAddr); !obs.equal(m.Pool) {
			x.violation(caseID, pl, bi, m, finding{"pool/changed-outside-beginblocker", map[string]interface{}{"model": m.Pool.String(), "observed": obs.String()}}, nil)
			m.Pool = obs.clone()
		}
		move := expectedMove(m.P, m.Pool)

		// (1) the rvesting BeginBlocker alone, on a branch of the pre-block state
		bctx, _ := pre.CacheContext()
		bctx = bctx.WithEventManager(sdk.NewEventManager())
		perr, panicked := core.Catch(func() error { rvesting.BeginBlocker(bctx, n.App.RVestingKeeper); return nil })
		r.Count("beginblocker_calls", 1)
		if m.P.Enabled {
			r.Count("blocks_enabled", 1)
		} else {
			r.Count("blocks_disabled", 1)
		}
		if panicked {
			r.Count("beginblocker_panics", 1)
			r.Count("beginblocker_panics/"+m.P.panicShape(), 1)
			if len(move) > 0 {
				// the statement requires `move` to be released in this block; a panic releases nothing
				x.violation(caseID, pl, bi, m, finding{"beginblocker/panic/" + m.P.panicShape(), map[string]interface{}{"panic": trunc(perr.Error(), 300)}}, nil)
				res.nontrivial = true
			} else {
				r.Count("beginblocker_panics_with_nothing_to_release(C15 only)", 1)
				r.Set("sample_panic_nothing_to_release", fmt.Sprintf("%s pool=%s: %s", m.P.String(), m.Pool.String(), trunc(perr.Error(), 200)))
			}
			// confirm on the real chain: BeginBlock has no recover, the chain halts here
			_, p2 := core.Catch(func() error { n.Begin(nextTime(n)); return nil })
			if p2 {
				r.Count("e2e_beginblock_panic_confirmed", 1)
			} else {
				r.Inconclusive("%s block %d: direct BeginBlocker panicked but the ABCI BeginBlock did not", caseID, bi)
			}
			res.halted = true
			res.trace = append(res.trace, fmt.Sprintf("b%d HALT %s", bi, trunc(perr.Error(), 80)))
			return
		}
		after, err := bankOf(n, bctx)
		if err != nil {
			r.Inconclusive("%s: bank dump: %v", caseID, err)
			return
		}
		fs := judgeDirect(before, after, m.P, m.Pool, move)
		for _, f := range fs {
			x.violation(caseID, pl, bi, m, f, map[string]interface{}{"where": "direct BeginBlocker call"})
		}
		// event statistics
		if m.P.Enabled {
			sums := rewardSums(m.P)
			any := false
			for d, s := range sums {
				rem := m.Pool.get(d)
				switch {
				case s.Sign() == 0:
					r.Count("denom_events/zero-reward", 1)
				case rem.IsZero():
					r.Count("denom_events/pool-empty", 1)
				case rem.BigInt().Cmp(s) < 0:
					r.Count("denom_events/partial-release(remaining<reward)", 1)
					any = true
				case rem.BigInt().Cmp(s) == 0:
					r.Count("denom_events/exact-last-release", 1)
					any = true
				default:
					r.Count("denom_events/full-release", 1)
					any = true
				}
			}
			if any {
				res.nontrivial = true
				r.Count("blocks_with_release", 1)
			} else {
				r.Count("blocks_enabled_nothing_to_release", 1)
			}
			if m.P.hasDup() {
				r.Count("blocks_dup_denom_no_panic", 1)
			}
		}

		// (2) the whole ABCI BeginBlock on the real chain
		if berr, p := core.Catch(func() error { n.Begin(nextTime(n)); return nil }); p {
			r.Inconclusive("%s block %d: BeginBlock panicked although the rvesting BeginBlocker did not: %v", caseID, bi, berr)
			res.halted = true
			return
		}
		post, err := bankOf(n, n.Ctx())
		if err != nil {
			r.Inconclusive("%s: bank dump: %v", caseID, err)
			return
		}
		for _, f := range judgeBegin(before, post, move) {
			x.violation(caseID, pl, bi, m, f, map[string]interface{}{"where": "ABCI BeginBlock"})
		}
		if len(fs) == 0 {
			for d, v := range move {
				m.Pool.sub(d, v)
			}
		} else {
			m.Pool = post.of(poolAddr).clone()
		}
		if len(res.trace) < 40 {
			res.trace = append(res.trace, fmt.Sprintf("b%d en=%v release=%s pool->%s", bi, m.P.Enabled, move.String(), m.Pool.String()))
		}

		// (3) traffic, top-ups and parameter changes inside the block
		ctx := n.Ctx()
		ledger := amap{} // supply changes made by the harness in this block
		funded := amap{} // pool credits made by the harness / accepted user sends in this block
		us := n.Accounts
		for _, o := range ops {
			switch o.Kind {
			case "params":
				if ok, why := setParams(n, ctx, *o.Params, o.Route, false); ok {
					m.P = *o.Params
					r.Count("param_changes", 1)
					r.Count("params_accepted/"+o.Params.Shape, 1)
					if !storedParamsMatch(n, ctx, m.P) {
						r.Inconclusive("%s block %d: parameters were not stored as given", caseID, bi)
					}
				} else {
					r.Count("params_rejected_by_validation/"+o.Params.Shape, 1)
					r.Set("last_params_rejection", fmt.Sprintf("%s: %s", o.Params.String(), why))
				}
			case "toggle":
				np := m.P
				np.Enabled = !np.Enabled
				if ok, _ := setParams(n, ctx, np, o.Route, true); ok {
					m.P = np
					r.Count("enable_toggles", 1)
					if !storedParamsMatch(n, ctx, m.P) {
						r.Inconclusive("%s block %d: parameters were not stored as given", caseID, bi)
					}
				} else {
					r.Count("toggle_rejected", 1)
				}
			case "bank-switch":
				bp := banktypes.DefaultParams()
				switch o.Route {
				case "denom-off":
					bp.SendEnabled = []*banktypes.SendEnabled{{Denom: o.Coins[0].Denom, Enabled: false}}
				case "default-off":
					bp.DefaultSendEnabled = false
				}
				if err, _ := core.Catch(func() error {
					if err := bp.Validate(); err != nil {
						return err
					}
					n.App.BankKeeper.SetParams(ctx, bp)
					return nil
				}); err != nil {
					r.Count("bank_switch_refused", 1)
					break
				}
				bankSwitched = o.Route != "all-on"
				r.Count("bank_send_switch/"+o.Route, 1)
			case "topup":
				cs := rcCoins(o.Coins)
				if err := fundPool(n, ctx, cs); err != nil {
					r.Inconclusive("%s block %d: top-up failed: %v", caseID, bi, err)
					break
				}
				for _, c := range cs {
					ledger.add(c.Denom, c.Amount)
					funded.add(c.Denom, c.Amount)
				}
				r.Count("pool_topups", 1)
			case "send-tx", "send-pool-tx", "send-fc-tx":
				to := sdk.AccAddress(nil)
				switch o.Kind {
				case "send-tx":
					to = us[o.To].Acc
				case "send-pool-tx":
					to = poolAddr
				default:
					to = fcAddr
				}
				cs := rcCoins(o.Coins)
				tx, err := n.CosmosTx(us[o.From], 300000, banktypes.NewMsgSend(us[o.From].Acc, to, cs))
				if err != nil {
					r.Inconclusive("%s: cannot build tx: %v", caseID, err)
					break
				}
				dres := n.Deliver(tx)
				r.Count(fmt.Sprintf("traffic/%s/code=%d", o.Kind, dres.Code), 1)
				if dres.Code == 0 && o.Kind == "send-pool-tx" {
					// not excluded by the statement: treated as one more way of funding the pool
					for _, c := range cs {
						funded.add(c.Denom, c.Amount)
					}
				}
			case "keeper-send":
				cs := rcCoins(o.Coins)
				err, _ := core.Catch(func() error { return n.App.BankKeeper.SendCoins(ctx, us[o.From].Acc, us[o.To].Acc, cs) })
				if err == nil {
					r.Count("traffic/keeper-send/ok", 1)
				} else {
					r.Count("traffic/keeper-send/err", 1)
				}
			case "mint-user":
				cs := rcCoins(o.Coins)
				err, _ := core.Catch(func() error {
					if err := n.App.BankKeeper.MintCoins(ctx, minterModule, cs); err != nil {
						return err
					}
					return n.App.BankKeeper.SendCoinsFromModuleToAccount(ctx, minterModule, us[o.To].Acc, cs)
				})
				if err != nil {
					r.Inconclusive("%s block %d: mint to user failed: %v", caseID, bi, err)
					break
				}
				for _, c := range cs {
					ledger.add(c.Denom, c.Amount)
				}
				r.Count("traffic/mint-user", 1)
			}
		}
		last := bi == len(pl.Blocks)-1
		if last && !pl.ViaGenesis && bankSwitched {
			n.App.BankKeeper.SetParams(ctx, banktypes.DefaultParams())
		}
		if last && !pl.ViaGenesis {
			// leave the re-used node with vesting disabled for the next history's set-up block
			if ok, why := setParams(n, ctx, disabledDefault, "setparams", false); !ok {
				r.Inconclusive("%s: cannot reset parameters: %s", caseID, why)
			}
		}
		if err, p := core.Catch(func() error { n.End(); return nil }); p {
			// not reachable through rvesting on the unchanged tree (its EndBlock is empty); the chain is dead, the harness cannot go on
			r.Inconclusive("%s block %d: EndBlock/Commit panicked: %v", caseID, bi, err)
			res.halted = true
			return
		}

		// (4) end of block: supply moved only by the harness's own mints, the pool only by BeginBlocker and funding
		end, err := bankOf(n, preCtx(n))
		if err != nil {
			r.Inconclusive("%s: bank dump: %v", caseID, err)
			return
		}
		for _, d := range unionDenoms(before.Sup, end.Sup, ledger) {
			if want := before.Sup.get(d).Add(ledger.get(d)); !end.Sup.get(d).Equal(want) {
				x.violation(caseID, pl, bi, m, finding{"block/supply-changed", map[string]interface{}{"denom": d, "supply_before": before.Sup.get(d).String(), "harness_minted": ledger.get(d).String(), "supply_after": end.Sup.get(d).String()}}, nil)
			}
		}
		for d, v := range funded {
			m.Pool.add(d, v)
		}
		if obs := end.of(poolAddr); !obs.equal(m.Pool) {
			x.violation(caseID, pl, bi, m, finding{"pool/changed-outside-beginblocker", map[string]interface{}{"model": m.Pool.String(), "observed": obs.String(), "at": "end of block"}}, nil)
			m.Pool = obs.clone()
		}
		for d, v := range end.of(poolAddr) {
			if v.IsNegative() {
				x.violation(caseID, pl, bi, m, finding{"pool/negative", map[string]interface{}{"denom": d, "after": v.String()}}, nil)
			}
		}
		r.Count("blocks_committed", 1)
	}
	return
}

func trunc(s string, n int) string {
	if len(s) > n {
		return s[:n] + "..."
	}
	return s
}

// ------------------------------------------------------------------ test

func TestC20(t *testing.T) {
	r := core.NewRun(t, "C20")
	r.Rule = "generated histories (initial rvesting params of every shape let through by validatePerBlockReward: single/multi/unsorted/zero/unheld/huge/duplicated/odd denominations; pool funded relative to the reward: empty, smaller, equal, running dry after k blocks, outlasting; set through keeper.SetParams or Subspace.Update or genesis) of ~30 blocks with parameter changes, enable toggles, pool top-ups and unrelated bank traffic. Every block: the real rvesting BeginBlocker is called alone on a branch of the pre-block state and the full bank store is compared with a reference schedule, then the real ABCI BeginBlock/EndBlock/Commit is run and judged end to end. Non-trivial = distinct history (hash of the whole plan) in which at least one enabled BeginBlocker had something to release."
	r.Assume("per-block reward of a denomination = sum of the PerBlockReward entries with that denomination (matters only for duplicated denominations; every reading of the statement agrees wherever the implementation does not panic)")
	r.Assume("the pool is funded/reset by the harness through a minter module (mint + module-to-module send); users cannot send to the blocked pool address")
	defer r.Finish()

	nSeq := r.N(200, 5000)
	r.MinNontrivial(r.N(100, 2500))
	x := &runner{r: r}
	perNode := 0
	for i := 0; i < nSeq; i++ {
		caseID := fmt.Sprintf("seq/%d", i)
		if !r.Want(caseID) {
			continue
		}
		rng := r.Rng(caseID)
		blocks := 30
		if r.Thorough() && rng.Intn(4) == 0 {
			blocks = 10 + rng.Intn(60)
		}
		pl := genPlan(rng, blocks)
		if x.shared != nil && !pl.ViaGenesis {
			perNode++
			if perNode >= 40 { // bound what accumulates on one node (community pool, heights)
				x.shared = nil
				perNode = 0
			}
		}
		res := x.runSeq(caseID, &pl)
		r.Eval(pl.key(), res.nontrivial)
		r.Count("histories", 1)
		r.Count("histories/init-shape="+pl.Init.Shape, 1)
		if res.halted {
			r.Count("histories_halted_by_panic", 1)
		}
		if i < 6 || (res.halted && i < 60) {
			r.Sample(map[string]interface{}{"case": caseID, "init": pl.Init.String(), "pool": rcCoins(pl.Pool).String(), "via_genesis": pl.ViaGenesis, "halted": res.halted, "trace": strings.Join(firstN(res.trace, 12), " | ")})
		}
	}
}

func firstN(xs []string, n int) []string {
	if len(xs) > n {
		return xs[:n]
	}
	return xs
}
