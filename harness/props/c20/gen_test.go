package c20

import (
	"encoding/json"
	"fmt"
	"math/big"
	"math/rand"
	"strings"

	sdk "github.com/cosmos/cosmos-sdk/types"
)

// rc is one entry of a PerBlockReward list / one pool or top-up coin.
type rc struct {
	Denom string  `json:"d"`
	Amt   sdk.Int `json:"a"`
}

// paramSet is one value of rvesting Params as the generator set it.
type paramSet struct {
	Enabled bool   `json:"en"`
	Reward  []rc   `json:"rw"`
	Shape   string `json:"shape"`
}

func (p paramSet) coins() sdk.Coins {
	cs := make(sdk.Coins, 0, len(p.Reward))
	for _, e := range p.Reward {
		cs = append(cs, sdk.Coin{Denom: e.Denom, Amount: e.Amt})
	}
	return cs
}

func (p paramSet) String() string {
	var sb strings.Builder
	fmt.Fprintf(&sb, "enabled=%v reward=[", p.Enabled)
	for i, e := range p.Reward {
		if i > 0 {
			sb.WriteByte(' ')
		}
		fmt.Fprintf(&sb, "%s%q", e.Amt.String(), e.Denom)
	}
	sb.WriteString("]")
	return sb.String()
}

// flags: structural facts about the reward list that the generator knows.
func (p paramSet) hasDup() bool {
	seen := map[string]bool{}
	for _, e := range p.Reward {
		if seen[e.Denom] {
			return true
		}
		seen[e.Denom] = true
	}
	return false
}

func (p paramSet) hasInvalidDenom() bool {
	for _, e := range p.Reward {
		if sdk.ValidateDenom(e.Denom) != nil {
			return true
		}
	}
	return false
}

func (p paramSet) panicShape() string {
	var fl []string
	if p.hasDup() {
		fl = append(fl, "dup-denom")
	}
	if p.hasInvalidDenom() {
		fl = append(fl, "invalid-denom")
	}
	if len(fl) == 0 {
		return "wellformed-params"
	}
	return strings.Join(fl, "+")
}

// acceptedByRule re-states validatePerBlockReward from the property's anchor
// as the generator understands it (non-empty list, no empty denomination, no
// negative amount). It is only used to keep the generator inside the
// quantifier's domain; the real validators decide what is actually applied.
func (p paramSet) acceptedByRule() bool {
	if len(p.Reward) == 0 {
		return false
	}
	for _, e := range p.Reward {
		if e.Denom == "" || e.Amt.IsNegative() {
			return false
		}
	}
	return true
}

// op is one harness action inside a block (after BeginBlock).
type op struct {
	Kind   string    `json:"k"` // params | toggle | bank-switch | topup | send-tx | send-pool-tx | send-fc-tx | keeper-send | mint-user
	Route  string    `json:"r,omitempty"`
	Params *paramSet `json:"p,omitempty"`
	Coins  []rc      `json:"c,omitempty"`
	From   int       `json:"f,omitempty"`
	To     int       `json:"t,omitempty"`
}

// plan is one generated history.
type plan struct {
	ViaGenesis  bool     `json:"genesis"`
	GenesisFrom bool     `json:"genesis_from"` // fund the pool through From/InitReward
	GenesisBank bool     `json:"genesis_bank,omitempty"` // (when not GenesisFrom) the pool's balance is a bank-genesis entry without an account record
	Init        paramSet `json:"init"`
	InitRoute   string   `json:"init_route"`
	Pool        []rc     `json:"pool"`
	Blocks      [][]op   `json:"blocks"`
}

func (pl plan) key() string {
	bz, _ := json.Marshal(pl)
	return string(bz)
}

var (
	long128 = "L" + strings.Repeat("x", 127)
	long129 = "L" + strings.Repeat("y", 128)
	// denominations a bank account can hold
	holdable = []string{"stake", "atele", "aaa", "reward/x-1", "ZZZ9", "bbb", long128}
	// valid denominations that nobody holds
	ghosts = []string{"ghost", "nobody/has-this"}
	// non-empty strings that are not bank denominations (pass validatePerBlockReward: only "" is refused)
	oddDenoms = []string{"a", "ab", "1ab", "a b", "é", "abc!", "-ab", " ", long129, "ABC$", "0"}

	two256m1 = sdk.NewIntFromBigInt(new(big.Int).Sub(new(big.Int).Lsh(big.NewInt(1), 256), big.NewInt(1)))
	two255   = sdk.NewIntFromBigInt(new(big.Int).Lsh(big.NewInt(1), 255))
	two128   = sdk.NewIntFromBigInt(new(big.Int).Lsh(big.NewInt(1), 128))
	poolCap  = new(big.Int).Lsh(big.NewInt(1), 200)
)

func pick(rng *rand.Rand, xs []string) string { return xs[rng.Intn(len(xs))] }

func pickDistinct(rng *rand.Rand, xs []string, n int) []string {
	p := rng.Perm(len(xs))
	if n > len(xs) {
		n = len(xs)
	}
	out := make([]string, 0, n)
	for _, i := range p[:n] {
		out = append(out, xs[i])
	}
	return out
}

func genAmt(rng *rand.Rand) sdk.Int {
	switch rng.Intn(10) {
	case 0:
		return sdk.NewInt(1)
	case 1, 2:
		return sdk.NewIntWithDecimal(int64(1+rng.Intn(50)), 17)
	case 3:
		return sdk.NewInt(int64(1 + rng.Intn(1_000_000_000)))
	}
	return sdk.NewInt(int64(1 + rng.Intn(1000)))
}

func genHuge(rng *rand.Rand) sdk.Int {
	switch rng.Intn(5) {
	case 0:
		return two256m1
	case 1:
		return two255
	case 2:
		return two128.AddRaw(int64(rng.Intn(1000)))
	case 3:
		return sdk.NewIntWithDecimal(int64(1+rng.Intn(9)), 40)
	}
	return sdk.NewIntFromBigInt(new(big.Int).Add(poolCap, big.NewInt(int64(rng.Intn(1000)))))
}

func sortRC(xs []rc) {
	for i := 1; i < len(xs); i++ {
		for j := i; j > 0 && xs[j-1].Denom > xs[j].Denom; j-- {
			xs[j-1], xs[j] = xs[j], xs[j-1]
		}
	}
}

// genParams draws a parameter value from every shape that
// validatePerBlockReward lets through.
func genParams(rng *rand.Rand) paramSet {
	p := paramSet{Enabled: rng.Intn(100) < 88}
	w := rng.Intn(100)
	switch {
	case w < 26:
		p.Shape = "single"
		p.Reward = []rc{{pick(rng, holdable), genAmt(rng)}}
	case w < 46:
		p.Shape = "multi-sorted"
		for _, d := range pickDistinct(rng, holdable, 2+rng.Intn(3)) {
			p.Reward = append(p.Reward, rc{d, genAmt(rng)})
		}
		sortRC(p.Reward)
	case w < 57:
		p.Shape = "multi-unsorted"
		for _, d := range pickDistinct(rng, holdable, 2+rng.Intn(4)) {
			p.Reward = append(p.Reward, rc{d, genAmt(rng)})
		}
		sortRC(p.Reward)
		// reverse or rotate so that the list is certainly not ascending
		for i, j := 0, len(p.Reward)-1; i < j; i, j = i+1, j-1 {
			p.Reward[i], p.Reward[j] = p.Reward[j], p.Reward[i]
		}
	case w < 67:
		p.Shape = "zero-amounts"
		ds := pickDistinct(rng, holdable, 1+rng.Intn(4))
		allZero := rng.Intn(4) == 0
		for i, d := range ds {
			a := genAmt(rng)
			if allZero || i == 0 || rng.Intn(2) == 0 {
				a = sdk.ZeroInt()
			}
			p.Reward = append(p.Reward, rc{d, a})
		}
		if rng.Intn(2) == 0 {
			sortRC(p.Reward)
		}
	case w < 75:
		p.Shape = "unheld-denom"
		p.Reward = append(p.Reward, rc{pick(rng, ghosts), genAmt(rng)})
		for _, d := range pickDistinct(rng, holdable, rng.Intn(3)) {
			p.Reward = append(p.Reward, rc{d, genAmt(rng)})
		}
		if rng.Intn(2) == 0 {
			sortRC(p.Reward)
		}
	case w < 84:
		p.Shape = "huge-amounts"
		for _, d := range pickDistinct(rng, holdable, 1+rng.Intn(3)) {
			a := genHuge(rng)
			if rng.Intn(4) == 0 {
				a = genAmt(rng)
			}
			p.Reward = append(p.Reward, rc{d, a})
		}
		sortRC(p.Reward)
	case w < 93:
		p.Shape = "dup-denom"
		ds := pickDistinct(rng, holdable, 1+rng.Intn(3))
		for _, d := range ds {
			p.Reward = append(p.Reward, rc{d, genAmt(rng)})
		}
		nd := 1 + rng.Intn(2)
		for i := 0; i < nd; i++ {
			d := ds[rng.Intn(len(ds))]
			a := genAmt(rng)
			switch rng.Intn(6) {
			case 0:
				a = sdk.ZeroInt()
			case 1:
				a = genHuge(rng)
			}
			p.Reward = append(p.Reward, rc{d, a})
		}
		switch rng.Intn(3) {
		case 0:
			sortRC(p.Reward) // adjacent duplicates
		case 1:
			rng.Shuffle(len(p.Reward), func(i, j int) { p.Reward[i], p.Reward[j] = p.Reward[j], p.Reward[i] })
		}
	case w >= 97:
		// outside the domain as the rule is written today (a negative amount): the real validators decide; should one of
		// their routes let it through, the schedule of the OTHER denominations still has to be kept
		p.Shape = "negative-amount"
		for _, d := range pickDistinct(rng, holdable, 2+rng.Intn(2)) {
			p.Reward = append(p.Reward, rc{d, genAmt(rng)})
		}
		sortRC(p.Reward)
		i := rng.Intn(len(p.Reward))
		p.Reward[i].Amt = p.Reward[i].Amt.Neg().Sub(sdk.OneInt())
	default:
		p.Shape = "odd-denom"
		for _, d := range pickDistinct(rng, holdable, rng.Intn(3)) {
			p.Reward = append(p.Reward, rc{d, genAmt(rng)})
		}
		a := genAmt(rng)
		if rng.Intn(5) == 0 {
			a = sdk.ZeroInt()
		}
		p.Reward = append(p.Reward, rc{pick(rng, oddDenoms), a})
		rng.Shuffle(len(p.Reward), func(i, j int) { p.Reward[i], p.Reward[j] = p.Reward[j], p.Reward[i] })
	}
	return p
}

// rewardSums: per-block reward of a denomination = sum of the list's entries of that denomination.
func rewardSums(p paramSet) map[string]*big.Int {
	out := map[string]*big.Int{}
	for _, e := range p.Reward {
		if out[e.Denom] == nil {
			out[e.Denom] = new(big.Int)
		}
		out[e.Denom].Add(out[e.Denom], e.Amt.BigInt())
	}
	return out
}

func capPool(x *big.Int) sdk.Int {
	if x.Cmp(poolCap) > 0 {
		x = new(big.Int).Set(poolCap)
	}
	return sdk.NewIntFromBigInt(x)
}

// genPool draws a pool relative to the reward so that pools smaller than the
// reward, exactly the reward, and pools running dry inside the history are all frequent.
func genPool(rng *rand.Rand, p paramSet) []rc {
	var pool []rc
	if rng.Intn(14) == 0 {
		return pool // empty pool
	}
	sums := rewardSums(p)
	var ds []string
	for d := range sums {
		ds = append(ds, d)
	}
	// deterministic order
	sortStrings(ds)
	for _, d := range ds {
		if sdk.ValidateDenom(d) != nil {
			continue // nobody can hold it
		}
		isGhost := false
		for _, g := range ghosts {
			if g == d {
				isGhost = true
			}
		}
		if isGhost {
			continue
		}
		R := sums[d]
		var amt *big.Int
		if R.Sign() == 0 {
			amt = big.NewInt(int64(rng.Intn(3)) * int64(rng.Intn(1000)))
		} else {
			switch w := rng.Intn(100); {
			case w < 9:
				amt = new(big.Int)
			case w < 20: // smaller than the reward
				amt = new(big.Int).Rand(rng, R)
			case w < 28:
				amt = new(big.Int).Set(R)
			case w < 68: // runs dry after k blocks with a remainder
				k := int64(1 + rng.Intn(14))
				amt = new(big.Int).Mul(R, big.NewInt(k))
				amt.Add(amt, new(big.Int).Rand(rng, R))
			case w < 80: // runs dry exactly
				amt = new(big.Int).Mul(R, big.NewInt(int64(1+rng.Intn(14))))
			default: // outlasts the history
				amt = new(big.Int).Mul(R, big.NewInt(int64(100+rng.Intn(10000))))
			}
		}
		if amt.Sign() > 0 {
			pool = append(pool, rc{d, capPool(amt)})
		}
	}
	if rng.Intn(4) == 0 { // a denomination that is not rewarded
		d := pick(rng, holdable)
		if _, ok := sums[d]; !ok {
			pool = append(pool, rc{d, genAmt(rng)})
		}
	}
	sortRC(pool)
	return pool
}

func sortStrings(xs []string) {
	for i := 1; i < len(xs); i++ {
		for j := i; j > 0 && xs[j-1] > xs[j]; j-- {
			xs[j-1], xs[j] = xs[j], xs[j-1]
		}
	}
}

func genRoute(rng *rand.Rand) string {
	if rng.Intn(2) == 0 {
		return "setparams"
	}
	return "update"
}

const nUsers = 3

func genPlan(rng *rand.Rand, blocks int) plan {
	via := rng.Intn(12) == 0
	gv := rng.Intn(5)
	pl := plan{ViaGenesis: via, GenesisFrom: gv >= 2, GenesisBank: gv == 1}
	pl.Init = genParams(rng)
	pl.InitRoute = genRoute(rng)
	pl.Pool = genPool(rng, pl.Init)
	cur := pl.Init
	for b := 0; b < blocks; b++ {
		var ops []op
		if rng.Intn(100) < 8 {
			np := genParams(rng)
			ops = append(ops, op{Kind: "params", Route: genRoute(rng), Params: &np})
			cur = np
			if rng.Intn(100) < 60 {
				// a new schedule usually comes with a pool for it (again sized relative to the reward)
				if cs := genPool(rng, np); len(cs) > 0 {
					ops = append(ops, op{Kind: "topup", Coins: cs})
				}
			}
		}
		if rng.Intn(100) < 7 {
			ops = append(ops, op{Kind: "toggle", Route: genRoute(rng)})
		}
		if rng.Intn(100) < 6 {
			// the bank module's own transfer switch (a parameter of ANOTHER module): user transfers of a rewarded denomination,
			// or of everything, are switched off / on again. Vesting is a module-to-module movement and is not subject to it.
			var cand []string
			for d := range rewardSums(cur) {
				if sdk.ValidateDenom(d) == nil {
					cand = append(cand, d)
				}
			}
			sortStrings(cand)
			o := op{Kind: "bank-switch", Route: []string{"denom-off", "denom-off", "default-off", "all-on"}[rng.Intn(4)]}
			if len(cand) > 0 {
				o.Coins = []rc{{cand[rng.Intn(len(cand))], sdk.OneInt()}}
			} else if o.Route == "denom-off" {
				o.Route = "default-off"
			}
			ops = append(ops, o)
		}
		if rng.Intn(100) < 10 {
			// top the pool up, preferably with rewarded denominations
			var cs []rc
			var cand []string
			for d := range rewardSums(cur) {
				if sdk.ValidateDenom(d) == nil {
					cand = append(cand, d)
				}
			}
			sortStrings(cand)
			cand = append(cand, pick(rng, holdable))
			seen := map[string]bool{}
			for i := 0; i < 1+rng.Intn(2); i++ {
				d := cand[rng.Intn(len(cand))]
				if seen[d] {
					continue
				}
				seen[d] = true
				a := genAmt(rng)
				if R := rewardSums(cur)[d]; R != nil && R.Sign() > 0 && rng.Intn(2) == 0 {
					x := new(big.Int).Mul(R, big.NewInt(int64(1+rng.Intn(4))))
					x.Add(x, new(big.Int).Rand(rng, R))
					a = capPool(x)
				}
				cs = append(cs, rc{d, a})
			}
			sortRC(cs)
			ops = append(ops, op{Kind: "topup", Coins: cs})
		}
		for i := 0; i < 2; i++ {
			w := rng.Intn(100)
			f := rng.Intn(nUsers)
			t := (f + 1 + rng.Intn(nUsers-1)) % nUsers
			amt := []rc{{"stake", sdk.NewInt(int64(1 + rng.Intn(1000)))}}
			switch {
			case w < 22:
				ops = append(ops, op{Kind: "send-tx", From: f, To: t, Coins: amt})
			case w < 28:
				amt[0].Denom = pick(rng, holdable)
				ops = append(ops, op{Kind: "send-pool-tx", From: f, Coins: amt})
			case w < 33:
				ops = append(ops, op{Kind: "send-fc-tx", From: f, Coins: amt})
			case w < 50:
				var cs []rc
				for _, d := range pickDistinct(rng, holdable, 1+rng.Intn(3)) {
					cs = append(cs, rc{d, sdk.NewInt(int64(1 + rng.Intn(100000)))})
				}
				sortRC(cs)
				ops = append(ops, op{Kind: "keeper-send", From: f, To: t, Coins: cs})
			case w < 55:
				ops = append(ops, op{Kind: "mint-user", To: t, Coins: []rc{{pick(rng, holdable), genAmt(rng)}}})
			}
		}
		pl.Blocks = append(pl.Blocks, ops)
	}
	return pl
}
