package pkt

import (
	"bytes"
	"math/big"

	packettypes "github.com/teleport-network/teleport/x/xibc/core/packet/types"
)

func word(b []byte, i int) *big.Int { return new(big.Int).SetBytes(b[i*32 : i*32+32]) }

func putWord(b []byte, i int, v *big.Int) {
	w := make([]byte, 32)
	v.FillBytes(w)
	copy(b[i*32:], w)
}

// Reencodings returns non-canonical ABI encodings of canonical packet bytes
// that the repository's decoder accepts and decodes to the same packet.
func Reencodings(canon []byte) [][]byte {
	var orig packettypes.Packet
	if err := orig.ABIDecode(canon); err != nil || len(canon) < 32*9 {
		return nil
	}
	var cands [][]byte
	// 0: trailing garbage
	cands = append(cands, append(append([]byte{}, canon...), make([]byte, 32)...))
	cands = append(cands, append(append([]byte{}, canon...), bytes.Repeat([]byte{0xee}, 64)...))
	// 1: gap between the tuple head and its tails (offsets are relative to the tuple start = byte 32)
	{
		out := append([]byte{}, canon[:32*9]...)
		out = append(out, bytes.Repeat([]byte{0xab}, 32)...)
		out = append(out, canon[32*9:]...)
		for _, i := range []int{1, 2, 4, 5, 6, 7} { // words of the head that are offsets (word 0 is the outer offset)
			putWord(out, i, new(big.Int).Add(word(out, i), big.NewInt(32)))
		}
		cands = append(cands, out)
	}
	// 2: outer offset 0x40 with a junk word in between
	{
		out := make([]byte, 32)
		putWord(out, 0, big.NewInt(64))
		out = append(out, bytes.Repeat([]byte{0xcd}, 32)...)
		out = append(out, canon[32:]...)
		cands = append(cands, out)
	}
	var ok [][]byte
	for _, c := range cands {
		var p packettypes.Packet
		if err := p.ABIDecode(c); err != nil {
			continue
		}
		if p.SrcChain == orig.SrcChain && p.DstChain == orig.DstChain && p.Sequence == orig.Sequence && p.Sender == orig.Sender &&
			bytes.Equal(p.TransferData, orig.TransferData) && bytes.Equal(p.CallData, orig.CallData) && p.CallbackAddress == orig.CallbackAddress && p.FeeOption == orig.FeeOption &&
			!bytes.Equal(c, canon) {
			ok = append(ok, c)
		}
	}
	return ok
}
