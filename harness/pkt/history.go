package pkt

import (
	"fmt"
	packettypes "github.com/teleport-network/teleport/x/xibc/core/packet/types"
	"math/big"
	"time"

	"verif/harness/core"
)

// Pending returns packets sent to a known chain but not yet received.
func (s *Sim) PendingRecv() []*Pkt {
	var out []*Pkt
	for _, p := range s.Pkts {
		if !p.Received && p.DstN != nil {
			out = append(out, p)
		}
	}
	return out
}

// PendingAck returns packets received but not yet acknowledged.
func (s *Sim) PendingAck() []*Pkt {
	var out []*Pkt
	for _, p := range s.Pkts {
		if p.Received && !p.Acked && p.AckWritten != nil {
			out = append(out, p)
		}
	}
	return out
}

// ReceivedPkts returns packets with an accepted receive.
func (s *Sim) ReceivedPkts() []*Pkt {
	var out []*Pkt
	for _, p := range s.Pkts {
		if p.Received {
			out = append(out, p)
		}
	}
	return out
}

// AckedPkts returns packets with an accepted acknowledgement.
func (s *Sim) AckedPkts() []*Pkt {
	var out []*Pkt
	for _, p := range s.Pkts {
		if p.Acked {
			out = append(out, p)
		}
	}
	return out
}

// RandNodePair picks two different nodes.
func (s *Sim) RandNodePair() (*core.Node, *core.Node) {
	i := s.Rng.Intn(len(s.W.Nodes))
	j := s.Rng.Intn(len(s.W.Nodes) - 1)
	if j >= i {
		j++
	}
	return s.W.Nodes[i], s.W.Nodes[j]
}

// RandRelayer picks a relayer.
func (s *Sim) RandRelayer() *core.Account { return s.W.Relayers[s.Rng.Intn(len(s.W.Relayers))] }

// RandUser picks a user.
func (s *Sim) RandUser() *core.Account { return s.W.Users[s.Rng.Intn(len(s.W.Users))] }

// RandSendSpec draws a send that is expected to be accepted by the source
// chain: a token whose representation on src the user can hold, a known
// destination, optional destination call of the given kinds.
func (s *Sim) RandSendSpec(callKinds []string) SendSpec {
	src, dst := s.RandNodePair()
	if len(s.Focus) == 2 && s.Rng.Intn(100) < s.FocusPct {
		src, dst = s.Focus[0], s.Focus[1]
	}
	u := s.RandUser()
	sp := SendSpec{Src: src, Dst: dst, User: u, Receiver: LowerHex(s.RandUser().Eth)}
	// tokens usable on this path: origin==src (forward) or origin==dst (back, if the user holds wrapped tokens)
	var cands []*core.Token
	for _, t := range s.Tokens {
		if t.Origin == src {
			cands = append(cands, t)
		} else if t.Origin == dst {
			bal := src.ERC20Balance(t.Wrapped[src.Name], u.Eth)
			if bal.Sign() > 0 {
				cands = append(cands, t)
			}
		}
	}
	if len(cands) > 0 && s.Rng.Intn(8) != 0 {
		t := cands[s.Rng.Intn(len(cands))]
		sp.Token = t
		max := int64(5000)
		f := int64(1)
		if t.Origin != src {
			// back transfer of wrapped tokens: the user must hold amount*10^scale wrapped units
			for i := uint8(0); i < t.Scale[src.Name]; i++ {
				f *= 10
			}
			bal := src.ERC20Balance(t.Wrapped[src.Name], u.Eth)
			units := new(big.Int).Div(bal, big.NewInt(f))
			if units.IsInt64() && units.Int64() < max {
				max = units.Int64()
			}
		}
		if max < 1 {
			max = 1
		}
		// the amount of a cross-chain call is always given in ORIGIN units; for a wrapped token the endpoint
		// burns amount*10^scale wrapped units
		sp.Amount = big.NewInt(1 + s.Rng.Int63n(max))
	}
	if len(callKinds) > 0 && (sp.Token == nil || s.Rng.Intn(3) == 0) {
		sp.Call = s.CallTo(dst, callKinds[s.Rng.Intn(len(callKinds))])
	}
	if sp.Token == nil && sp.Call.Kind == "" {
		sp.Call = s.CallTo(dst, "counter")
	}
	// fee: ERC-20 origin tokens of src or native
	switch s.Rng.Intn(3) {
	case 0:
		sp.FeeAmount = big.NewInt(int64(s.Rng.Intn(20)))
	case 1:
		for _, t := range s.Tokens {
			if t.Origin == src && t.Addr != core.ZeroAddr {
				sp.FeeToken = t
				sp.FeeAmount = big.NewInt(int64(s.Rng.Intn(20)))
				break
			}
		}
	}
	// the fee option is an opaque number the packet carries to the destination: every value must survive the round trip
	// log -> hook -> commitment unchanged
	if s.Rng.Intn(3) == 0 {
		sp.FeeOption = []uint64{1, 2, 3, 255, 1 << 32, 1<<63 + 5, 1<<64 - 1}[s.Rng.Intn(7)]
	}
	return sp
}

// Describe renders a spec for logs/replays.
func (sp SendSpec) Describe() string {
	tok := "-"
	if sp.Token != nil {
		tok = sp.Token.ID
	}
	return fmt.Sprintf("%s->%s user=%s token=%s amount=%v call=%s fee=%v", sp.Src.Name, sp.Dst.Name, sp.User.Name, tok, sp.Amount, sp.Call.Kind, sp.FeeAmount)
}

// ScrambleRelayers re-registers, on chain n, every relayer with a junk counterparty address for the counterparty
// chain `chain` (the relayers stay authorised for it; only the address they are known by on that chain changes).
// While this lasts, an acknowledgement coming back from `chain` names a relayer nobody on n is registered as, and a
// receive on n from `chain` records the junk address as fee recipient. RestoreRelayers undoes it.
func (s *Sim) ScrambleRelayers(n *core.Node, chain string) {
	for i, r := range s.W.Relayers {
		var chains, addrs []string
		for _, o := range s.W.Nodes {
			if o == n {
				continue
			}
			chains = append(chains, o.Name)
			if o.Name == chain {
				addrs = append(addrs, core.NewAccount(fmt.Sprintf("junk-%s-%d", chain, i)).Bech32())
			} else {
				addrs = append(addrs, r.Bech32())
			}
		}
		n.App.XIBCKeeper.ClientKeeper.RegisterRelayers(n.Ctx(), r.Bech32(), chains, addrs)
	}
	s.logf("registry on %s: counterparty addresses for %s scrambled", n.Name, chain)
}

// RestoreRelayers registers every relayer on n the way NewWorld did.
func (s *Sim) RestoreRelayers(n *core.Node) {
	for _, r := range s.W.Relayers {
		var chains, addrs []string
		for _, o := range s.W.Nodes {
			if o != n {
				chains = append(chains, o.Name)
				addrs = append(addrs, r.Bech32())
			}
		}
		n.App.XIBCKeeper.ClientKeeper.RegisterRelayers(n.Ctx(), r.Bech32(), chains, addrs)
	}
	s.logf("registry on %s restored", n.Name)
}

// ToggleRoundTrip: governance toggles the client n keeps for chain `of` to a TSS client and back to a fresh Tendermint
// client (see core.World.ToggleRoundTrip). Relaying continues afterwards; receipts, acknowledgements and commitments stay.
func (s *Sim) ToggleRoundTrip(n, of *core.Node) error {
	err := s.W.ToggleRoundTrip(n, of, s.W.Admin, 14*24*time.Hour)
	s.logf("client for %s on %s toggled to tss and back to tendermint (err=%v)", of.Name, n.Name, err)
	return err
}

// UpgradeClient: governance upgrades the Tendermint client n keeps for chain `of` to a fresh anchor.
func (s *Sim) UpgradeClient(n, of *core.Node) error {
	err := s.W.UpgradeTM(n, of, 14*24*time.Hour)
	s.logf("client for %s on %s upgraded to a fresh anchor (err=%v)", of.Name, n.Name, err)
	return err
}

// RecvRelayer returns the relayer that delivered p to its destination (read from the acknowledgement the destination
// wrote, which names it), or nil.
func (s *Sim) RecvRelayer(p *Pkt) *core.Account {
	var ack packettypes.Acknowledgement
	if len(p.AckWritten) == 0 || ack.ABIDecode(p.AckWritten) != nil {
		return nil
	}
	for _, r := range s.W.Relayers {
		if r.Bech32() == ack.Relayer {
			return r
		}
	}
	return nil
}

// UpgradeClientRevisionRoundTrip: see core.World.UpgradeTMRevisionRoundTrip.
func (s *Sim) UpgradeClientRevisionRoundTrip(n, of *core.Node) error {
	err := s.W.UpgradeTMRevisionRoundTrip(n, of, 14*24*time.Hour)
	s.logf("client for %s on %s upgraded into the next revision and back (err=%v)", of.Name, n.Name, err)
	return err
}

// GovClientOp picks one of the governance operations on the client n keeps for `of`: toggle round trip, upgrade to a fresh
// anchor, upgrade into the next revision and back.
func (s *Sim) GovClientOp(n, of *core.Node) error {
	switch s.Rng.Intn(3) {
	case 0:
		return s.ToggleRoundTrip(n, of)
	case 1:
		return s.UpgradeClient(n, of)
	}
	return s.UpgradeClientRevisionRoundTrip(n, of)
}

// CrossRelayers re-registers every relayer on n so that its address on counterparty `chain` stays its own, while its address on
// every OTHER counterparty is the NEXT relayer's address: the same address string then appears under two relayers, for
// different chains. A lookup of "the relayer whose address on chain X is A" has exactly one right answer.
func (s *Sim) CrossRelayers(n *core.Node, chain string) {
	for i, r := range s.W.Relayers {
		next := s.W.Relayers[(i+1)%len(s.W.Relayers)]
		var chains, addrs []string
		for _, o := range s.W.Nodes {
			if o == n {
				continue
			}
			chains = append(chains, o.Name)
			if o.Name == chain {
				addrs = append(addrs, r.Bech32())
			} else {
				addrs = append(addrs, next.Bech32())
			}
		}
		n.App.XIBCKeeper.ClientKeeper.RegisterRelayers(n.Ctx(), r.Bech32(), chains, addrs)
	}
	s.logf("registry on %s: addresses for the counterparties other than %s crossed between relayers", n.Name, chain)
}
