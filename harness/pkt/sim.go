// Package pkt is the shared multi-chain packet-history engine used by the
// monitors of C01–C06: it sends cross-chain calls through the real endpoint
// contract, relays them with real Tendermint headers and ICS-23 proofs, and
// records a boundary observation (tx result + store diff) for every delivered
// transaction.
package pkt

import (
	"bytes"
	"crypto/sha256"
	"fmt"
	"math/big"
	"math/rand"
	"strings"

	sdk "github.com/cosmos/cosmos-sdk/types"
	"github.com/ethereum/go-ethereum/common"

	clienttypes "github.com/teleport-network/teleport/x/xibc/core/client/types"
	"github.com/teleport-network/teleport/x/xibc/core/host"
	packettypes "github.com/teleport-network/teleport/x/xibc/core/packet/types"

	"verif/harness/core"
)

// Pkt is a packet the simulator saw leaving a chain, with everything the
// oracles need to know about its life.
type Pkt struct {
	core.SentPacket
	SrcN, DstN *core.Node
	SendBlock  int64 // block of SrcN that contains the send
	Spec       SendSpec

	Received   bool  // an accepted receive was observed on DstN
	RecvBlock  int64 // block of DstN containing the accepted receive
	RecvCount  int   // accepted receives observed (must never exceed 1)
	AckWritten []byte
	AckCode    uint64
	Acked      bool // an accepted MsgAcknowledgement was observed on SrcN
	AckCount   int
}

// CallSpec describes the destination-side contract call of a packet.
type CallSpec struct {
	Kind     string // "", "counter", "reverter", "burner", "agent-unknown-chain", "staking-nofunds", "raw"
	Contract string
	Data     []byte
}

// SendSpec is one cross-chain call.
type SendSpec struct {
	Src, Dst  *core.Node
	DstName   string // defaults to Dst.Name; may name an unknown chain
	User      *core.Account
	Token     *core.Token // nil: no transfer
	Amount    *big.Int
	Receiver  string
	Call      CallSpec
	Callback  common.Address
	FeeToken  *core.Token // nil: fee in native coin
	FeeAmount *big.Int
	FeeOption uint64
}

// Obs is the boundary observation of one delivered transaction.
type Obs struct {
	Node   *core.Node
	Block  int64
	What   string
	Code   uint32
	Log    string
	Result core.TxResult
	Eth    *core.EthResult
	Before *core.Snapshot
	After  *core.Snapshot
	Diff   []core.DiffEntry
}

// OK reports whether the tx was executed successfully (for EVM txs: included and not reverted).
func (o *Obs) OK() bool {
	if o.Eth != nil {
		return o.Eth.OK()
	}
	return o.Code == 0
}

// DiffIn returns the diff entries of one store.
func (o *Obs) DiffIn(store string) []core.DiffEntry {
	var out []core.DiffEntry
	for _, d := range o.Diff {
		if d.Store == store {
			out = append(out, d)
		}
	}
	return out
}

// Sim is the simulator.
type Sim struct {
	W         *core.World
	Rng       *rand.Rand
	Tokens    []*core.Token
	Pkts      []*Pkt
	ByKey     map[string]*Pkt
	Contracts map[string]map[string]common.Address
	// Log is the list of op descriptions executed so far (for replay files).
	Log []string
	// Watch lists the stores snapshotted around every delivered tx.
	Watch []string
	// Focus, when it names two nodes, makes RandSendSpec use that (source, destination) pair FocusPct times out of 100:
	// many packets of ONE path in flight at a time (sequence numbers 1, 10..19, 100.. share key prefixes).
	Focus    []*core.Node
	FocusPct int
}

// Config configures NewSim.
type Config struct {
	Chains   int
	Users    int
	Relayers int
	Tokens   int // ERC-20 tokens, origin chain rotating over the chains; plus the native coin of chain 0
	Native   bool
	Scale    uint8
}

// NewSim builds a world with tokens and probe contracts.
func NewSim(rng *rand.Rand, cfg Config) (*Sim, error) {
	if cfg.Chains == 0 {
		cfg.Chains = 3
	}
	if cfg.Tokens == 0 {
		cfg.Tokens = 2
	}
	w := core.NewWorld(core.WorldConfig{Chains: cfg.Chains, Users: cfg.Users, Relayers: cfg.Relayers})
	s := &Sim{W: w, Rng: rng, ByKey: map[string]*Pkt{}, Contracts: map[string]map[string]common.Address{},
		Watch: []string{"xibc", "bank", "evm", "aggregate", "staking", "gov", "distribution"}}
	mint := new(big.Int).Exp(big.NewInt(10), big.NewInt(12), nil)
	for i := 0; i < cfg.Tokens; i++ {
		t, err := w.NewToken(fmt.Sprintf("t%d", i), w.Nodes[i%len(w.Nodes)], false, cfg.Scale, mint)
		if err != nil {
			return nil, err
		}
		s.Tokens = append(s.Tokens, t)
	}
	if cfg.Native {
		t, err := w.NewToken("nat", w.Nodes[0], true, cfg.Scale, nil)
		if err != nil {
			return nil, err
		}
		s.Tokens = append(s.Tokens, t)
	}
	for _, n := range w.Nodes {
		m := map[string]common.Address{}
		for name, code := range map[string][]byte{"counter": core.Counter(), "reverter": core.Reverter(), "burner": core.GasBurner()} {
			a, err := n.DeployRuntime(w.Admin.Eth, code)
			if err != nil {
				return nil, err
			}
			m[name] = a
		}
		s.Contracts[n.Name] = m
	}
	for _, n := range w.Nodes {
		w.Roll(n)
	}
	return s, nil
}

func (s *Sim) logf(format string, a ...interface{}) {
	s.Log = append(s.Log, fmt.Sprintf(format, a...))
}

// Deliver delivers a cosmos tx in the node's current block and observes it.
func (s *Sim) Deliver(n *core.Node, from *core.Account, what string, msgs ...sdk.Msg) *Obs {
	before := n.Snap(n.Ctx(), s.Watch...)
	res := s.W.DeliverMsgs(n, from, msgs...)
	after := n.Snap(n.Ctx(), s.Watch...)
	o := &Obs{Node: n, Block: n.Header.Height, What: what, Code: res.Code, Log: res.Log, Result: res, Before: before, After: after, Diff: core.DiffSnap(before, after)}
	s.logf("%s@%s#%d: %s -> code=%d", from.Name, n.Name, n.Header.Height, what, res.Code)
	return o
}

// DeliverEth delivers raw (already signed) tx bytes carrying a MsgEthereumTx.
func (s *Sim) DeliverEth(n *core.Node, what string, tx []byte) *Obs {
	before := n.Snap(n.Ctx(), s.Watch...)
	raw := n.Deliver(tx)
	eth := core.DecodeEthResult(raw)
	after := n.Snap(n.Ctx(), s.Watch...)
	o := &Obs{Node: n, Block: n.Header.Height, What: what, Code: raw.Code, Log: raw.Log, Eth: eth,
		Result: core.TxResult{Code: raw.Code, Log: raw.Log, Events: raw.Events, Raw: raw}, Before: before, After: after, Diff: core.DiffSnap(before, after)}
	s.logf("%s#%d: %s -> code=%d vmerr=%q", n.Name, n.Header.Height, what, raw.Code, eth.VmError)
	return o
}

// CrossChainData builds the endpoint argument for a spec.
func (s *Sim) CrossChainData(sp SendSpec) (packettypes.CrossChainData, packettypes.Fee) {
	dst := sp.DstName
	if dst == "" {
		dst = sp.Dst.Name
	}
	d := packettypes.CrossChainData{DstChain: dst, Receiver: sp.Receiver, Amount: big.NewInt(0), ContractAddress: sp.Call.Contract, CallData: sp.Call.Data, CallbackAddress: sp.Callback, FeeOption: sp.FeeOption}
	if d.CallData == nil {
		d.CallData = []byte{}
	}
	if sp.Token != nil {
		d.TokenAddress = sp.Token.AddrOn(sp.Src)
		d.Amount = sp.Amount
	}
	fee := packettypes.Fee{Amount: big.NewInt(0)}
	if sp.FeeAmount != nil {
		fee.Amount = sp.FeeAmount
	}
	if sp.FeeToken != nil {
		fee.TokenAddress = sp.FeeToken.AddrOn(sp.Src)
	}
	return d, fee
}

// Send delivers endpoint.crossChainCall and registers the packets it emitted.
func (s *Sim) Send(sp SendSpec) (*Obs, []*Pkt) {
	d, fee := s.CrossChainData(sp)
	tx, err := s.W.CrossChainTx(sp.Src, sp.User, d, fee)
	if err != nil {
		return &Obs{Node: sp.Src, What: "send(build failed: " + err.Error() + ")", Code: 1 << 30}, nil
	}
	o := s.DeliverEth(sp.Src, fmt.Sprintf("crossChainCall(dst=%s token=%v amount=%v call=%s fee=%v)", d.DstChain, d.TokenAddress.Hex(), d.Amount, sp.Call.Kind, fee.Amount), tx)
	var out []*Pkt
	if o.OK() {
		for _, sp2 := range core.ParseSent(o.Eth) {
			p := s.Register(sp2, sp, sp.Src)
			out = append(out, p)
		}
	}
	return o, out
}

// Register records a packet emitted by src.
func (s *Sim) Register(sp2 *core.SentPacket, spec SendSpec, src *core.Node) *Pkt {
	p := &Pkt{SentPacket: *sp2, SrcN: src, DstN: s.W.ByName[sp2.Dst], SendBlock: src.Header.Height, Spec: spec}
	s.Pkts = append(s.Pkts, p)
	s.ByKey[p.Key()] = p
	return p
}

// ProvableHeight makes sure `of` has committed everything up to and including
// block h and returns the lowest header height whose app hash covers it.
func (s *Sim) ProvableHeight(of *core.Node, h int64) int64 {
	for of.Height() < h {
		s.W.Roll(of)
	}
	return h + 1
}

// UpdateClient delivers MsgUpdateClient(on tracks of) to height target
// (0: of's newest header). It rolls `on` first so that its block time is current.
func (s *Sim) UpdateClient(on, of *core.Node, relayer *core.Account, target int64) (*Obs, int64, error) {
	if target == 0 {
		target = of.Header.Height
	}
	s.W.Roll(on)
	msg, err := s.W.UpdateMsg(on, of, relayer, target, clienttypes.Height{})
	if err != nil {
		return nil, 0, err
	}
	return s.Deliver(on, relayer, fmt.Sprintf("updateClient(%s->%d)", of.Name, target), msg), target, nil
}

// EnsureClient makes sure on's client of `of` has a consensus state at a
// height >= min and returns a height usable for proofs of state committed
// before it.
func (s *Sim) EnsureClient(on, of *core.Node, relayer *core.Account, min int64) (int64, error) {
	latest := int64(s.W.ClientLatest(on, of).RevisionHeight)
	if latest >= min && s.HasConsensus(on, of, latest) {
		return latest, nil
	}
	o, target, err := s.UpdateClient(on, of, relayer, 0)
	if err != nil {
		return 0, err
	}
	if !o.OK() {
		return 0, fmt.Errorf("honest client update rejected: %s", o.Log)
	}
	if target < min {
		return 0, fmt.Errorf("target %d below required %d", target, min)
	}
	return target, nil
}

// HasConsensus reports whether on's client of `of` stores a consensus state at h.
func (s *Sim) HasConsensus(on, of *core.Node, h int64) bool {
	_, ok := on.App.XIBCKeeper.ClientKeeper.GetClientConsensusState(on.Ctx(), of.Name, core.HeightOf(of, h))
	return ok
}

// RecvMsg builds an honest MsgRecvPacket for p with a proof at proofHeight.
func (s *Sim) RecvMsg(p *Pkt, proofHeight int64, relayer *core.Account) (*packettypes.MsgRecvPacket, error) {
	return s.W.RecvMsg(p.SrcN, p.Bytes, [3]string{p.Src, p.Dst, ""}, p.Packet.Sequence, proofHeight, relayer)
}

// AckMsg builds an honest MsgAcknowledgement for p.
func (s *Sim) AckMsg(p *Pkt, ack []byte, proofHeight int64, relayer *core.Account) (*packettypes.MsgAcknowledgement, error) {
	return s.W.AckMsg(p.DstN, p.Bytes, ack, p.Src, p.Dst, p.Packet.Sequence, proofHeight, relayer)
}

// HonestRecv relays p to its destination: commits the send, updates the
// client, delivers the receive. The observation of the receive is returned.
func (s *Sim) HonestRecv(p *Pkt, relayer *core.Account) (*Obs, error) {
	if p.DstN == nil {
		return nil, fmt.Errorf("unknown destination %s", p.Dst)
	}
	min := s.ProvableHeight(p.SrcN, p.SendBlock)
	ph, err := s.EnsureClient(p.DstN, p.SrcN, relayer, min)
	if err != nil {
		return nil, err
	}
	msg, err := s.RecvMsg(p, ph, relayer)
	if err != nil {
		return nil, err
	}
	o := s.Deliver(p.DstN, relayer, "recv "+p.Key(), msg)
	s.NoteRecv(p, o)
	return o, nil
}

// NoteRecv updates the packet record from an observed receive attempt.
func (s *Sim) NoteRecv(p *Pkt, o *Obs) {
	if !o.OK() {
		return
	}
	p.RecvCount++
	if !p.Received {
		p.Received = true
		p.RecvBlock = o.Block
	}
	for _, wa := range core.WriteAcks(o.Result.Events) {
		if wa.SrcChain == p.Src && wa.DstChain == p.Dst && wa.Sequence == fmt.Sprint(p.Packet.Sequence) {
			p.AckWritten = wa.Ack
			var a packettypes.Acknowledgement
			if err := a.ABIDecode(wa.Ack); err == nil {
				p.AckCode = a.Code
			}
		}
	}
}

// HonestAck relays the written acknowledgement of p back to its source.
func (s *Sim) HonestAck(p *Pkt, relayer *core.Account) (*Obs, error) {
	if !p.Received || p.AckWritten == nil {
		return nil, fmt.Errorf("packet %s has no written ack", p.Key())
	}
	min := s.ProvableHeight(p.DstN, p.RecvBlock)
	ph, err := s.EnsureClient(p.SrcN, p.DstN, relayer, min)
	if err != nil {
		return nil, err
	}
	msg, err := s.AckMsg(p, p.AckWritten, ph, relayer)
	if err != nil {
		return nil, err
	}
	o := s.Deliver(p.SrcN, relayer, "ack "+p.Key(), msg)
	s.NoteAck(p, o)
	return o, nil
}

// NoteAck updates the packet record from an observed acknowledgement attempt.
func (s *Sim) NoteAck(p *Pkt, o *Obs) {
	if o.OK() {
		p.AckCount++
		p.Acked = true
	}
}

// ---------------------------------------------------------------- ground truth

// SourceStored reads key from of's xibc store as committed BEFORE header
// `height` (i.e. version height-1), which is what a proof at `height` can show.
func (s *Sim) SourceStored(of *core.Node, key []byte, height int64) []byte {
	if height-1 < 1 || height-1 > of.Height() {
		return nil
	}
	v, err := s.W.StoredAt(of, key, height-1)
	if err != nil {
		return nil
	}
	return v
}

// TrueRecvClaim decides from the source chain itself whether "the source chain
// stored the hash of exactly this (decoded) packet under exactly its
// (src,dst,seq) path" as of proof height, and whether the destination's
// consensus state at that height is the source's real app hash.
func (s *Sim) TrueRecvClaim(on *core.Node, packetBytes []byte, proofHeight clienttypes.Height) (claim bool, why string) {
	var p packettypes.Packet
	if err := p.ABIDecode(packetBytes); err != nil {
		return false, "undecodable packet"
	}
	src := s.W.ByName[p.SrcChain]
	if src == nil {
		return false, "unknown source chain"
	}
	if proofHeight.RevisionNumber != src.Revision() {
		return false, "wrong revision"
	}
	canon, err := p.ABIPack()
	if err != nil {
		return false, "unpackable"
	}
	h := sha256.Sum256(canon)
	h64 := int64(proofHeight.RevisionHeight)
	stored := s.SourceStored(src, host.PacketCommitmentKey(p.SrcChain, p.DstChain, p.Sequence), h64)
	if !bytes.Equal(stored, h[:]) {
		return false, "source did not store this commitment at that height"
	}
	cs, ok := on.App.XIBCKeeper.ClientKeeper.GetClientConsensusState(on.Ctx(), p.SrcChain, proofHeight)
	if !ok {
		return false, "no consensus state at proof height"
	}
	rec, ok := src.Blocks[h64]
	if !ok || !bytes.Equal(cs.GetRoot(), rec.AppHash) {
		return false, "consensus root is not the source's app hash"
	}
	return true, ""
}

// TrueAckClaim decides whether the counterparty stored the hash of exactly
// these ack bytes for exactly this packet as of proof height, and whether this
// chain still holds the commitment of exactly that packet.
func (s *Sim) TrueAckClaim(on *core.Node, packetBytes, ack []byte, proofHeight clienttypes.Height) (bool, string) {
	var p packettypes.Packet
	if err := p.ABIDecode(packetBytes); err != nil {
		return false, "undecodable packet"
	}
	dst := s.W.ByName[p.DstChain]
	if dst == nil {
		return false, "unknown destination chain"
	}
	if proofHeight.RevisionNumber != dst.Revision() {
		return false, "wrong revision"
	}
	canon, err := p.ABIPack()
	if err != nil {
		return false, "unpackable"
	}
	ph := sha256.Sum256(canon)
	held := on.App.XIBCKeeper.PacketKeeper.GetPacketCommitment(on.Ctx(), p.SrcChain, p.DstChain, p.Sequence)
	if !bytes.Equal(held, ph[:]) {
		return false, "this chain does not hold that packet's commitment"
	}
	ah := sha256.Sum256(ack)
	h64 := int64(proofHeight.RevisionHeight)
	stored := s.SourceStored(dst, host.PacketAcknowledgementKey(p.SrcChain, p.DstChain, p.Sequence), h64)
	if !bytes.Equal(stored, ah[:]) {
		return false, "counterparty did not store this ack at that height"
	}
	cs, ok := on.App.XIBCKeeper.ClientKeeper.GetClientConsensusState(on.Ctx(), p.DstChain, proofHeight)
	if !ok {
		return false, "no consensus state at proof height"
	}
	rec, ok := dst.Blocks[h64]
	if !ok || !bytes.Equal(cs.GetRoot(), rec.AppHash) {
		return false, "consensus root is not the counterparty's app hash"
	}
	return true, ""
}

// ---------------------------------------------------------------- call data

// CallTo builds a destination call spec of the given kind on chain dst.
func (s *Sim) CallTo(dst *core.Node, kind string) CallSpec {
	switch kind {
	case "":
		return CallSpec{}
	case "counter", "reverter", "burner":
		return CallSpec{Kind: kind, Contract: strings.ToLower(s.Contracts[dst.Name][kind].Hex()), Data: []byte{0x12, 0x34, 0x56, 0x78}}
	}
	return CallSpec{}
}

// LowerHex returns the lower-case hex form used for receivers.
func LowerHex(a common.Address) string { return strings.ToLower(a.Hex()) }
