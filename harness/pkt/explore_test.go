package pkt

import (
	"fmt"
	"math/big"
	"math/rand"
	"strings"
	"testing"

	agentcontract "github.com/teleport-network/teleport/syscontracts/xibc_agent"
	"github.com/teleport-network/teleport/syscontracts"
	packettypes "github.com/teleport-network/teleport/x/xibc/core/packet/types"

	"verif/harness/core"
)

func TestExplore(t *testing.T) {
	s, err := NewSim(rand.New(rand.NewSource(1)), Config{Chains: 3, Users: 2, Relayers: 2, Tokens: 2, Native: true})
	if err != nil {
		t.Fatal(err)
	}
	a, b := s.W.Nodes[0], s.W.Nodes[1]
	u := s.W.Users[0]
	r := s.W.Relayers[0]
	tok := s.Tokens[0]
	nat := s.Tokens[2]
	show := func(name string, sp SendSpec) {
		o, ps := s.Send(sp)
		fmt.Printf("== %s: send ok=%v vmerr=%q npk=%d\n", name, o.OK(), o.Eth.VmError, len(ps))
		if !o.OK() {
			fmt.Println("   diff entries on failed send:", len(o.Diff))
			for _, d := range o.Diff {
				fmt.Println("     ", d.Store, d.Key, d.Op)
			}
			return
		}
		for _, p := range ps {
			ro, err := s.HonestRecv(p, r)
			if err != nil {
				fmt.Println("   recv err", err)
				continue
			}
			var ack packettypes.Acknowledgement
			_ = ack.ABIDecode(p.AckWritten)
			fmt.Printf("   recv code=%d ack={code=%d msg=%q res=%x relayer=%s} log=%s\n", ro.Code, ack.Code, ack.Message, ack.Result, ack.Relayer, trunc(ro.Log))
			for _, d := range ro.Diff {
				fmt.Println("      d:", d.Store, d.Key, d.Op)
			}
			ao, err := s.HonestAck(p, r)
			if err != nil {
				fmt.Println("   ack err", err)
				continue
			}
			fmt.Printf("   ack code=%d status=%d log=%s\n", ao.Code, a.AckStatus(p.Dst, p.Packet.Sequence), trunc(ao.Log))
			for _, d := range ao.Diff {
				fmt.Println("      d:", d.Store, d.Key, d.Op)
			}
		}
	}
	recv := LowerHex(s.W.Users[1].Eth)
	show("erc20 plain", SendSpec{Src: a, Dst: b, User: u, Token: tok, Amount: big.NewInt(1000), Receiver: recv, FeeToken: tok, FeeAmount: big.NewInt(7)})
	show("native plain", SendSpec{Src: a, Dst: b, User: u, Token: nat, Amount: big.NewInt(500), Receiver: recv, FeeAmount: big.NewInt(3)})
	show("erc20 + counter", SendSpec{Src: a, Dst: b, User: u, Token: tok, Amount: big.NewInt(10), Receiver: recv, Call: s.CallTo(b, "counter")})
	show("erc20 + reverter", SendSpec{Src: a, Dst: b, User: u, Token: tok, Amount: big.NewInt(10), Receiver: recv, Call: s.CallTo(b, "reverter")})
	show("erc20 + burner", SendSpec{Src: a, Dst: b, User: u, Token: tok, Amount: big.NewInt(10), Receiver: recv, Call: s.CallTo(b, "burner")})
	show("call only counter", SendSpec{Src: a, Dst: b, User: u, Call: s.CallTo(b, "counter")})
	show("bad receiver", SendSpec{Src: a, Dst: b, User: u, Token: tok, Amount: big.NewInt(10), Receiver: "not-an-address"})
	show("unknown dst", SendSpec{Src: a, Dst: b, DstName: "nochain", User: u, Token: tok, Amount: big.NewInt(10), Receiver: recv})
	show("zero amount no call", SendSpec{Src: a, Dst: b, User: u, Token: tok, Amount: big.NewInt(0), Receiver: recv})
	show("over balance", SendSpec{Src: a, Dst: b, User: u, Token: tok, Amount: new(big.Int).Exp(big.NewInt(10), big.NewInt(30), nil), Receiver: recv})
	// agent to unknown chain
	wb := tok.Wrapped[b.Name]
	cd, _ := agentcontract.AgentContract.ABI.Pack("send", wb, recv, "nochain-xyz", big.NewInt(0))
	show("agent unknown chain", SendSpec{Src: a, Dst: b, User: u, Token: tok, Amount: big.NewInt(2000), Receiver: strings.ToLower(agentcontract.AgentContractAddress.Hex()),
		Call: CallSpec{Kind: "agent-unknown", Contract: syscontracts.AgentContractAddress, Data: cd}})
	// transfer back
	show("back", SendSpec{Src: b, Dst: a, User: s.W.Users[1], Token: tok, Amount: big.NewInt(300), Receiver: LowerHex(u.Eth)})
	fmt.Println("A out", a.OutTokens(tok.Addr, b.Name), "B bind", b.Bindings(wb, a.Name).Amount, "B supply", b.ERC20Supply(wb), "A endpoint bal", a.ERC20Balance(tok.Addr, core.EndpointAddr))
}

func trunc(s string) string {
	if len(s) > 160 {
		return s[:160]
	}
	return s
}
