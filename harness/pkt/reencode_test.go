package pkt

import (
	"fmt"
	"testing"

	packettypes "github.com/teleport-network/teleport/x/xibc/core/packet/types"
)

func TestReencode(t *testing.T) {
	p := packettypes.Packet{SrcChain: "aaa", DstChain: "bbb", Sequence: 3, Sender: "0xabc", TransferData: []byte{1, 2, 3}, CallData: []byte{}, CallbackAddress: "", FeeOption: 1}
	bz, _ := p.ABIPack()
	fmt.Println("variants accepted:", len(Reencodings(bz)))
}
