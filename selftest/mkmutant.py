#!/usr/bin/env python3
"""mkmutant.py <name> "<checks>" <file> <old> <new>  – writes mutants/<name>.patch (a unified diff against /repo HEAD)."""
import sys, subprocess, difflib, os
name, checks, path, old, new = sys.argv[1:6]
src = subprocess.check_output(["git", "-C", "/repo", "show", "HEAD:" + path]).decode()
assert old in src, "pattern not found in " + path
mut = src.replace(old, new, 1)
diff = "".join(difflib.unified_diff(src.splitlines(True), mut.splitlines(True), "a/" + path, "b/" + path))
out = os.path.join(os.path.dirname(os.path.abspath(__file__)), "mutants", name + ".patch")
open(out, "w").write("# checks: %s\n" % checks + diff)
print("made", name)
