#!/bin/bash
# selftest/run.sh [patch ...]  – applies each mutant patch to a scratch worktree of /repo HEAD,
# runs the checks named in the patch's first line ("# checks: C01 C05"), expects exit 1, removes the worktree.
export GOFLAGS=-mod=mod GOPROXY=off GOSUMDB=off GOTOOLCHAIN=local
HERE="$(cd "$(dirname "$0")" && pwd)"
PATCHES=("$@")
[ ${#PATCHES[@]} -eq 0 ] && PATCHES=("$HERE"/mutants/*.patch)
fail=0
for p in "${PATCHES[@]}"; do
  name="$(basename "$p" .patch)"
  checks="$(head -1 "$p" | sed -n 's/^# checks: //p')"
  wt="/tmp/wt_selftest_$name"
  git -C /repo worktree remove --force "$wt" 2>/dev/null
  git -C /repo worktree add -q --detach "$wt" HEAD || { echo "$name: cannot create worktree"; fail=1; continue; }
  if ! (cd "$wt" && git apply --whitespace=nowarn "$p"); then echo "MUTANT $name: patch does not apply"; fail=1; git -C /repo worktree remove --force "$wt"; continue; fi
  if ! (cd "$wt" && go build ./... >/dev/null 2>&1); then echo "MUTANT $name: does not build"; fail=1; git -C /repo worktree remove --force "$wt"; continue; fi
  for c in $checks; do
    out="$(cd "$HERE/.." && VERIF_REPO="$wt" ./check "$c" "${TIER:-quick}" 2>&1)"; rc=$?
    keys="$(echo "$out" | sed -n 's/^  key=\([^ ]*\).*/\1/p' | sort -u | head -4 | tr '\n' ' ')"
    if [ $rc -eq 1 ]; then echo "MUTANT $name: $c CAUGHT  [$keys]"; else echo "MUTANT $name: $c MISSED (rc=$rc)"; fail=1; fi
  done
  git -C /repo worktree remove --force "$wt"
  rm -f "$HERE/../bin/"*".$(echo "$wt" | md5sum | cut -c1-8)".* 2>/dev/null
  rm -rf "$HERE/../bin/evidence.$(echo "$wt" | md5sum | cut -c1-8)" 2>/dev/null
done
exit $fail
