#!/usr/bin/env python3
"""mutcamp.py - sampled mutation campaign over the anchor files of the properties.

Not a registered check: a tool for finding blind spots of the monitors. For every anchor .go file it generates
small syntactic mutants (relational / logical operator flips, dropped error guards, deleted store writes and
event emissions, off-by-one constants, ctx/cctx swaps, break/continue and true/false flips), samples a few per
file with a fixed PRNG, and for each mutant, in a scratch git worktree of /repo HEAD under /tmp:
  1. go build ./...                     (fails -> stillborn)
  2. ./check <ID> quick with VERIF_REPO=<worktree> for every property anchoring the file, first kill wins
  3. only when every check passed: the repository's own suite against BASELINE (fails -> killed by the suite,
     i.e. not a change the task cares about)
  4. otherwise: SURVIVOR (either an equivalent / property-irrelevant mutant or a blind spot; reviewed by hand)
Results: notes/mutation/results.jsonl (one line per mutant) and notes/mutation/survivors/<n>.diff.

usage: mutcamp.py [--workers 5] [--per-file 8] [--only C07,C09] [--seed 1] [--files <substr>]
"""
import argparse, hashlib, json, os, random, re, subprocess, sys, threading, time

HERE = os.path.dirname(os.path.abspath(__file__))
VERIF = os.path.dirname(HERE)
ENV = dict(os.environ, GOFLAGS='-mod=mod', GOPROXY='off', GOSUMDB='off', GOTOOLCHAIN='local', VERIF_NO_RACE='1')
OUT = os.path.join(VERIF, 'notes', 'mutation')

EXTRA = {  # files the anchors name only as directories (C14) or that carry a mechanism without being listed
    'adapter/staking/hooks.go': ['C17', 'C14'], 'adapter/gov/hooks.go': ['C17', 'C14'],
    'x/xibc/core/packet/keeper/evm.go': ['C03', 'C04', 'C06'],
}
ALSO = {  # additional checks known to observe a file's behaviour
    'x/xibc/core/packet/keeper/packet.go': ['C03'], 'x/xibc/keeper/msg_server.go': ['C01', 'C02', 'C05', 'C18'],
    'x/xibc/core/client/keeper/client.go': ['C13'], 'x/aggregate/genesis.go': ['C13'],
    'x/xibc/clients/light-clients/bsc/types/store.go': ['C13', 'C09'],
    'x/xibc/clients/light-clients/eth/types/store.go': ['C13', 'C10'],
    'x/xibc/clients/light-clients/tendermint/types/store.go': ['C13', 'C07'],
    'x/rvesting/module/abci.go': ['C20', 'C15'],
}


def anchors():
    m = {}
    for line in open(os.path.join(VERIF, 'properties.jsonl')):
        p = json.loads(line)
        for f in p['anchors']['files']:
            if f.endswith('.go') and not f.endswith('_test.go') and os.path.isfile('/repo/' + f):
                m.setdefault(f, [])
                if p['id'] not in m[f]:
                    m[f].append(p['id'])
    for f, ids in list(EXTRA.items()) + list(ALSO.items()):
        for i in ids:
            m.setdefault(f, [])
            if i not in m[f]:
                m[f].append(i)
    return m


def code_mask(line, in_block):
    """returns (mask, in_block): mask[i] True when column i is code (not string / rune / comment)"""
    mask, i, n = [False] * len(line), 0, len(line)
    while i < n:
        if in_block:
            j = line.find('*/', i)
            if j < 0:
                return mask, True
            i, in_block = j + 2, False
            continue
        c = line[i]
        if line.startswith('//', i):
            break
        if line.startswith('/*', i):
            in_block = True
            i += 2
            continue
        if c in '"`\'':
            q, i = c, i + 1
            while i < n and line[i] != q:
                i += 2 if (line[i] == '\\' and q != '`') else 1
            i += 1
            continue
        mask[i] = True
        i += 1
    return mask, in_block


REL = [('==', '!='), ('!=', '=='), ('<=', '<'), ('>=', '>'), ('<', '<='), ('>', '>=')]


def gen(path):
    """yield (lineno, operator, new_line or None for delete, extra) for every candidate mutant"""
    lines = open(path).read().split('\n')
    in_block, in_import = False, False
    for k, line in enumerate(lines):
        mask, in_block = code_mask(line, in_block)
        st = line.strip()
        if st.startswith('import (') or st.startswith('const (') or st.startswith('var ('):
            in_import = True
        if in_import:
            if st == ')':
                in_import = False
            continue
        if not any(mask) or st.startswith('func ') or st.startswith('package ') or st.startswith('type '):
            continue
        code = ''.join(c if m else ' ' for c, m in zip(line, mask))
        # relational operators
        for m_ in re.finditer(r'==|!=|<=|>=|<-|<<|>>|->|:=|<|>', code):
            t = m_.group(0)
            for a, b in REL:
                if t == a:
                    yield k, 'ROR ' + a + '→' + b, line[:m_.start()] + b + line[m_.end():]
        for m_ in re.finditer(r'&&|\|\|', code):
            t = m_.group(0)
            yield k, 'LOR ' + t, line[:m_.start()] + ('||' if t == '&&' else '&&') + line[m_.end():]
        # guard drop: if <cond> { \n return ...err... \n }
        g = re.match(r'^(\s*)(?:\} else )?if (.*) \{\s*$', code)
        if g and k + 2 < len(lines) and lines[k + 1].strip().startswith('return') and lines[k + 2].strip().startswith('}'):
            body = line[line.index('if ') + 3: line.rindex('{')].rstrip()
            pre, cond = ('', body)
            if ';' in ''.join(c if m else ' ' for c, m in zip(body, mask[line.index('if ') + 3:])):
                j = body.rindex(';')
                pre, cond = body[:j + 1] + ' ', body[j + 1:].strip()
            yield k, 'GUARD-DROP', line[:line.index('if ') + 3] + pre + '(' + cond + ') && false {'
        # statement deletion: single-line calls without assignment that write state or emit
        if re.match(r'^\s*[\w\.\(\)]+\.(Set\w*|Delete\w*|Emit\w*|Write|write|Remove\w*|Register\w*|Update\w*|Add\w*)\(.*\)\s*$', code) and '=' not in code.split('(')[0]:
            yield k, 'STMT-DEL', None
        if re.match(r'^\s*write\(\)\s*$', code):
            yield k, 'STMT-DEL', None
        # constants
        for m_ in re.finditer(r'([+\-]) 1\b(?!\d)', code):
            yield k, 'CONST ' + m_.group(1) + '1→0', line[:m_.start()] + m_.group(1) + ' 0' + line[m_.end():]
        for m_ in re.finditer(r'/ 2\b', code):
            yield k, 'CONST /2→/1', line[:m_.start()] + '/ 1' + line[m_.end():]
        for m_ in re.finditer(r'/2\b', code):
            yield k, 'CONST /2→/1', line[:m_.start()] + '/1' + line[m_.end():]
        # context swap
        for m_ in re.finditer(r'\bcctx\b', code):
            if ':=' not in code and 'cctx,' not in code.split('(')[0]:
                yield k, 'CTX cctx→ctx', line[:m_.start()] + 'ctx' + line[m_.end():]
        for m_ in re.finditer(r'\bcacheCtx\b', code):
            if ':=' not in code:
                yield k, 'CTX cacheCtx→ctx', line[:m_.start()] + 'ctx' + line[m_.end():]
        if st == 'break':
            yield k, 'FLOW break→continue', line.replace('break', 'continue')
        if st == 'continue':
            yield k, 'FLOW continue→break', line.replace('continue', 'break')
        g = re.match(r'^(\s*)return (true|false)\s*$', code)
        if g:
            yield k, 'RET bool flip', g.group(1) + 'return ' + ('false' if g.group(2) == 'true' else 'true')


def sh(cmd, cwd, timeout=3000):
    try:
        p = subprocess.run(cmd, shell=True, cwd=cwd, env=ENV, capture_output=True, text=True, timeout=timeout)
        return p.returncode, p.stdout + p.stderr
    except subprocess.TimeoutExpired:
        return 124, 'timeout'


def suite(wt):
    rc, _ = sh('go test -mod=mod -json -vet=off -count=1 -timeout 25m ./... > suite.json 2>/dev/null', wt, 2400)
    base = json.load(open('/root/.vp/BASELINE.json'))
    want, res = set(base['stable_pass']), {}
    for line in open(os.path.join(wt, 'suite.json')):
        try:
            e = json.loads(line)
        except Exception:
            continue
        if e.get('Test') and e.get('Action') in ('pass', 'fail', 'skip'):
            res[e['Package'] + '::' + e['Test']] = e['Action']
    os.remove(os.path.join(wt, 'suite.json'))
    return sorted(t for t in want if res.get(t) != 'pass')


lock = threading.Lock()


def worker(wi, queue, resf):
    wt = '/tmp/mut_w%d' % wi
    sh('git -C /repo worktree remove --force %s; git -C /repo worktree add -q --detach %s HEAD' % (wt, wt), '/')
    while True:
        with lock:
            if not queue:
                break
            mu = queue.pop(0)
        f, k, op, new, ids, n = mu['file'], mu['line'], mu['op'], mu['new'], mu['checks'], mu['n']
        p = os.path.join(wt, f)
        orig = open(p).read()
        lines = orig.split('\n')
        mu['before'] = lines[k].strip()
        if new is None:
            lines[k] = ''
        else:
            lines[k] = new
        open(p, 'w').write('\n'.join(lines))
        t0 = time.time()
        rc, out = sh('go build ./...', wt)
        if rc != 0:
            mu['status'] = 'stillborn'
            open(p, 'w').write(orig)
            with lock:
                resf.write(json.dumps(mu) + '\n'); resf.flush()
            continue
        status, detail = None, {}
        for cid in ids:
            rc, out = sh('VERIF_REPO=%s ./check %s quick' % (wt, cid), VERIF, 2400)
            keys = sorted(set(re.findall(r'^  key=(\S+)', out, re.M)))[:4]
            detail[cid] = rc
            if rc == 1:
                status = 'killed:' + cid
                mu['keys'] = keys
                break
            if rc == 2:
                mu.setdefault('inconclusive', []).append(cid + ':' + out.strip().split('\n')[-1][:200])
        if status is None:
            miss = suite(wt)
            if miss:
                status = 'suite-killed'
                mu['suite_fails'] = miss[:3]
            else:
                status = 'SURVIVOR'
                _, d = sh('git diff', wt)
                os.makedirs(os.path.join(OUT, 'survivors'), exist_ok=True)
                open(os.path.join(OUT, 'survivors', '%04d.diff' % n), 'w').write(d)
        mu['status'], mu['checks_rc'], mu['secs'] = status, detail, round(time.time() - t0)
        open(p, 'w').write(orig)
        with lock:
            resf.write(json.dumps(mu) + '\n'); resf.flush()
    sh('git -C /repo worktree remove --force %s' % wt, '/')
    sfx = hashlib.md5((wt + '\n').encode()).hexdigest()[:8]
    sh('rm -rf bin/*.%s.* bin/evidence.%s' % (sfx, sfx), VERIF)


GROUPS = [
    ('x/xibc/clients/', ['C07', 'C08', 'C09', 'C10', 'C13', 'C15', 'C18', 'C19', 'C02', 'C06']),
    ('x/xibc/core/client', ['C06', 'C07', 'C13', 'C15', 'C18', 'C19', 'C09', 'C10']),
    ('x/xibc/core/packet', ['C01', 'C02', 'C03', 'C04', 'C05', 'C06', 'C13', 'C19']),
    ('x/xibc/', ['C01', 'C02', 'C03', 'C04', 'C05', 'C06', 'C13', 'C18', 'C19', 'C15']),
    ('x/aggregate', ['C11', 'C12', 'C13', 'C15', 'C16', 'C03', 'C06']),
    ('x/rvesting', ['C20', 'C15', 'C13']),
    ('adapter', ['C17']),
    ('syscontracts', ['C17', 'C03', 'C04']),
    ('app/', ['C14', 'C16', 'C17', 'C20', 'C13', 'C15', 'C11']),
]


def wider(f):
    for pre, ids in GROUPS:
        if f.startswith(pre):
            return ids
    return []


def recheck_worker(wi, queue, resf):
    wt = '/tmp/mut_r%d' % wi
    sh('git -C /repo worktree remove --force %s; git -C /repo worktree add -q --detach %s HEAD' % (wt, wt), '/')
    while True:
        with lock:
            if not queue:
                break
            mu = queue.pop(0)
        p = os.path.join(wt, mu['file'])
        orig = open(p).read()
        lines = orig.split('\n')
        if mu['line'] >= len(lines) or lines[mu['line']].strip() != mu['before']:
            # the file changed since the campaign (a later fix): find the line again, or skip
            cands = [i for i, l in enumerate(lines) if l.strip() == mu['before']]
            near = [i for i in cands if abs(i - mu['line']) <= 12]
            if len(near) != 1:
                with lock:
                    resf.write(json.dumps({'n': mu['n'], 'file': mu['file'], 'line': mu['line'], 'op': mu['op'], 'before': mu['before'], 'status': 'skipped-file-changed'}) + '\n'); resf.flush()
                continue
            delta = near[0] - mu['line']
            mu['line'] = near[0]
            if mu['new'] is not None:
                pass
        lines[mu['line']] = '' if mu['new'] is None else mu['new']
        open(p, 'w').write('\n'.join(lines))
        rc0, _ = sh('go build ./...', wt)
        if rc0 != 0:
            open(p, 'w').write(orig)
            with lock:
                resf.write(json.dumps({'n': mu['n'], 'file': mu['file'], 'line': mu['line'], 'op': mu['op'], 'before': mu['before'], 'status': 'stillborn-now'}) + '\n'); resf.flush()
            continue
        out = {'n': mu['n'], 'file': mu['file'], 'line': mu['line'], 'op': mu['op'], 'before': mu['before'], 'rechecked': {}, 'status': 'SURVIVOR-ALL'}
        for cid in wider(mu['file']):
            if cid in mu.get('checks_rc', {}):
                continue
            rc, o = sh('VERIF_REPO=%s ./check %s quick' % (wt, cid), VERIF, 2400)
            out['rechecked'][cid] = rc
            if rc == 1:
                out['status'] = 'killed:' + cid
                out['keys'] = sorted(set(re.findall(r'^  key=(\S+)', o, re.M)))[:4]
                break
        open(p, 'w').write(orig)
        with lock:
            resf.write(json.dumps(out) + '\n'); resf.flush()
    sh('git -C /repo worktree remove --force %s' % wt, '/')
    sfx = hashlib.md5((wt + '\n').encode()).hexdigest()[:8]
    sh('rm -rf bin/*.%s.* bin/evidence.%s' % (sfx, sfx), VERIF)


def recheck(workers):
    done = set()
    rp = os.path.join(OUT, 'recheck.jsonl')
    if os.path.exists(rp):
        done = {json.loads(l)['n'] for l in open(rp)}
    queue = [json.loads(l) for l in open(os.path.join(OUT, 'results.jsonl'))]
    queue = [m for m in queue if m['status'] == 'SURVIVOR' and m['n'] not in done]
    # error-path guards (`if err != nil {` made dead / inverted) only matter when the guarded call fails: almost all are
    # unreachable with valid state - they are listed as survivors but not re-run
    import re as _re
    queue = [m for m in queue if not _re.search(r'(^if err != nil \{$)|(; err != nil \{$)|(^if !ok \{$)', m['before'])]
    print('survivors to recheck:', len(queue))
    resf = open(rp, 'a')
    ts = [threading.Thread(target=recheck_worker, args=(i, queue, resf)) for i in range(workers)]
    for t in ts:
        t.start()
    for t in ts:
        t.join()


def main():
    ap = argparse.ArgumentParser()
    ap.add_argument('--workers', type=int, default=5)
    ap.add_argument('--per-file', type=int, default=8)
    ap.add_argument('--only', default='')
    ap.add_argument('--files', default='')
    ap.add_argument('--seed', type=int, default=1)
    ap.add_argument('--list', action='store_true')
    ap.add_argument('--recheck', action='store_true')
    a = ap.parse_args()
    os.makedirs(OUT, exist_ok=True)
    if a.recheck:
        recheck(a.workers)
        return
    done = set()
    resp = os.path.join(OUT, 'results.jsonl')
    if os.path.exists(resp):
        for line in open(resp):
            j = json.loads(line)
            done.add((j['file'], j['line'], j['op']))
    queue, n = [], len(done)
    only = set(a.only.split(',')) if a.only else None
    for f, ids in sorted(anchors().items()):
        if only and not (only & set(ids)):
            continue
        if a.files and a.files not in f:
            continue
        if only:
            ids = [i for i in ids if i in only] + [i for i in ids if i not in only]
        cands = list(gen('/repo/' + f))
        rng = random.Random('%d|%s' % (a.seed, f))
        rng.shuffle(cands)
        # stratify: round-robin over operator classes
        byop = {}
        for c in cands:
            byop.setdefault(c[1].split(' ')[0], []).append(c)
        pick, quota = [], a.per_file + 2 * len(ids)
        while len(pick) < quota and any(byop.values()):
            for op in sorted(byop):
                if byop[op] and len(pick) < quota:
                    pick.append(byop[op].pop())
        for (k, op, new) in pick:
            if (f, k, op) in done:
                continue
            n += 1
            queue.append({'n': n, 'file': f, 'line': k, 'op': op, 'new': new, 'checks': ids})
    print('mutants queued:', len(queue), 'files:', len(set(m['file'] for m in queue)))
    if a.list:
        for m in queue:
            print(m['file'], m['line'] + 1, m['op'], m['checks'])
        return
    rng = random.Random(a.seed)
    rng.shuffle(queue)
    resf = open(resp, 'a')
    ts = [threading.Thread(target=worker, args=(i, queue, resf)) for i in range(a.workers)]
    for t in ts:
        t.start()
    for t in ts:
        t.join()
    print('done')


if __name__ == '__main__':
    main()
